#!/usr/bin/env python3
"""tools/regress_report.py <regress-log>  -- turn the output of tools/regress.sh into refactorings/results.json and a
seed summary (stdout).  Never touches seeded/*/meta.json: mismatches are printed for a human to look at."""
import json, re, sys, collections
log = open(sys.argv[1]).read().splitlines()
seeds_ok, seeds_bad = [], []
ref = collections.OrderedDict()
for l in log:
    m = re.match(r'SEED (\S+) ok \((\d)\)', l)
    if m:
        seeds_ok.append(m.group(1)); continue
    m = re.match(r'SEED (\S+) MISMATCH got=(\S*) want=(\S*)', l)
    if m:
        seeds_bad.append((m.group(1), m.group(2), m.group(3))); continue
    m = re.match(r'REFACTOR (ok|ALARM) (\S+) (C\d\d) exit=(\d)\s*(.*)', l)
    if m:
        ref.setdefault(m.group(2), []).append({'property': m.group(3), 'exit': int(m.group(4)), 'note': m.group(5)[:160]})
runs = [r for v in ref.values() for r in v]
tot = {'refactorings': len(ref), 'runs': len(runs), 'exit0': sum(r['exit'] == 0 for r in runs), 'exit2': sum(r['exit'] == 2 for r in runs),
       'exit1': sum(r['exit'] == 1 for r in runs), 'refactorings_fully_verified': sum(all(r['exit'] == 0 for r in v) for v in ref.values())}
doc = ("Behaviour-preserving refactorings written by sub-agents (A: formatter + tail of type_description, B: typegen functions under contract, "
       "C: primitive examples and names, H: builders / substitutes / mixed-fields check / upcast / tail of type_description, V: the validation loop and its "
       "accessors, F: flatten_recursive_derives), each confirmed against the full suite (A, C, V, F additionally against a differential / model-based test, see "
       "*-equiv_test.rs). Evaluated with tools/refactor_eval.sh via tools/regress.sh: the patch is applied to /repo, the quick check of every property whose units "
       "read the touched files is run, the patch is reverted. Required: never exit 1.")
json.dump({'_doc': doc, 'results': ref, 'totals': tot}, open('/verif/refactorings/results.json', 'w'), indent=1)
print('seeds consistent with meta.json:', len(seeds_ok), ' mismatches:', seeds_bad)
print('refactorings:', tot)
