#!/bin/sh
# tools/regress.sh -- re-run every seeded change and every harmless refactoring against the current machinery and
# compare with the recorded outcomes (seeded/*/meta.json; refactorings must never exit 1).
cd /verif || exit 2
for id in $(ls seeded); do
  out=$(tools/seed_eval.sh $id 2>&1 | head -1)
  rc=$(echo "$out" | sed -n 's/.*exit=\([0-9]\).*/\1/p')
  want=$(python3 -c "import json;print({'detected':1,'undecided':2,'missed':0}[json.load(open('seeded/$id/meta.json'))['check_result']['outcome']])")
  [ "$rc" = "$want" ] && echo "SEED $id ok ($rc)" || echo "SEED $id MISMATCH got=$rc want=$want"
done
for id in $(ls refactorings | grep -v equiv | grep -v results); do
  tools/refactor_eval.sh $id 2>&1 | while read l; do case "$l" in *exit=1*) echo "REFACTOR ALARM $l";; *) echo "REFACTOR ok $l";; esac; done
done
