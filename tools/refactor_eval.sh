#!/bin/sh
# tools/refactor_eval.sh <id>  -- apply a harmless refactoring to /repo, run the checks of every property whose units read the touched files, undo
ID=$1
cd /repo || exit 2
# evidence of runs on PATCHED trees goes to a scratch directory, never to /verif/evidence
export VERIF_EVIDENCE_DIR=/verif/build/eval-evidence; mkdir -p $VERIF_EVIDENCE_DIR
git diff --quiet || { echo "repo dirty"; exit 2; }
git apply /verif/refactorings/$ID/patch.diff || { echo "$ID patch does not apply"; exit 2; }
FILES=$(git diff --name-only)
PROPS=""
for f in $FILES; do case $f in
  description/src/formatting.rs) PROPS="$PROPS C15 C13";;
  description/src/description.rs) PROPS="$PROPS C13";;
  description/src/type_example/scale_value.rs) PROPS="$PROPS C12";;
  typegen/src/typegen/settings/derives.rs) PROPS="$PROPS C08 C18 C16 C11";;
  typegen/src/typegen/settings/substitutes.rs) PROPS="$PROPS C16 C11";;
  typegen/src/typegen/error.rs) PROPS="$PROPS C10 C11";;
  typegen/src/utils.rs) PROPS="$PROPS C10";;
  typegen/src/typegen/mod.rs) PROPS="$PROPS C10 C08 C18";;
  typegen/src/typegen/ir/type_ir.rs|typegen/src/typegen/type_path.rs) PROPS="$PROPS C08 C18";;
  typegen/src/typegen/validation.rs) PROPS="$PROPS C11";;
esac; done
PROPS=$(echo $PROPS | tr ' ' '\n' | sort -u | tr '\n' ' ')
for P in $PROPS; do
  /verif/check $P --tier quick > /tmp/refrun_${ID}_$P.out 2>&1; RC=$?
  echo "$ID $P exit=$RC $(grep -E '^VIOLATION|^UNDECIDED' /tmp/refrun_${ID}_$P.out | head -1 | cut -c1-160)"
done
git checkout -- .
