"""tools/unit_try.py <unit> [repo]  -- extract + verify one unit, print the classified outcome (development aid)"""
import json, os, sys
sys.path.insert(0, os.path.dirname(os.path.dirname(os.path.abspath(__file__))))
from vx import extract, verusrun
unit = sys.argv[1]; repo = sys.argv[2] if len(sys.argv) > 2 else '/repo'
V = os.path.dirname(os.path.dirname(os.path.abspath(__file__)))
out = os.path.join(V, 'build', unit, unit.replace('-', '_') + '.rs')
try:
    ex = extract.extract_unit(repo, os.path.join(V, 'units', unit), out)
except extract.LostAnchor as e:
    print('LOST ANCHOR', e); sys.exit(2)
res = verusrun.run(out, timeout=600, rlimit=ex['spec'].get('rlimit'))
cl = verusrun.classify(res, ex['origin'], ex['lines'])
print(cl['status'], 'smt_ms', cl['stats'].get('smt_ms'), 'queries', len(cl['stats'].get('functions', [])))
for f in cl['failures']:
    print('FAIL', verusrun.label(unit, f)); print(f.get('rendered', '')[:1200])
for u in cl['undecided']:
    print('UNDECIDED', json.dumps(u)[:3000])
