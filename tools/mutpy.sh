#!/bin/sh
# tools/mutpy.sh <Cnn> <python-mutator> <mutation-name>
P=$1; PY=$2; N=$3
S=$(mktemp -d /tmp/mut.XXXXXX)
rsync -a --exclude target --exclude .git /repo/ "$S/"
python3 "$PY" "$S" "$N" || { rm -rf "$S"; exit 3; }
(cd /repo && diff -ru description/src "$S/description/src" | head -${DIFFLINES:-0})
VERIF_REPO="$S" /verif/check "$P" ${TIER:+--tier $TIER}; rc=$?
rm -rf "$S"
echo "exit=$rc"
