#!/bin/sh
# tools/seed_eval.sh <seed-id> [tier]  -- apply a seeded change to /repo, run the property's check, undo it straight afterwards
ID=$1; TIER=${2:-quick}
P=${ID%%-*}
cd /repo || exit 2
# evidence of runs on PATCHED trees goes to a scratch directory, never to /verif/evidence
export VERIF_EVIDENCE_DIR=/verif/build/eval-evidence; mkdir -p $VERIF_EVIDENCE_DIR
git diff --quiet || { echo "repo dirty"; exit 2; }
git apply /verif/seeded/$ID/patch.diff || { echo "patch does not apply"; exit 2; }
/verif/check $P --tier $TIER > /tmp/seedrun_$ID.out 2>&1; RC=$?
git checkout -- .
echo "$ID exit=$RC $(grep -c '^VIOLATION' /tmp/seedrun_$ID.out) violation line(s)"
grep -E "^failed obligation|^VIOLATION|^UNDECIDED|^OK|^KNOWN|^concrete" /tmp/seedrun_$ID.out | cut -c1-260 | head -8
