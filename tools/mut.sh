#!/bin/sh
# tools/mut.sh <Cnn> <sed-expr or patch file> [file]   -- run a check against a mutated SCRATCH copy of /repo's sources
# (Verus units read source text only; Kani/replay build from the scratch copy too via VERIF_REPO).
P=$1; M=$2; F=$3
S=$(mktemp -d /tmp/mut.XXXXXX)
rsync -a --exclude target --exclude .git /repo/ "$S/"
if [ -f "$M" ]; then (cd "$S" && patch -p1 -s < "$M") || { echo "patch failed"; rm -rf "$S"; exit 3; }
else sed -i "$M" "$S/$F"; (cd /repo && diff -u "$F" "$S/$F" | head -30); fi
VERIF_REPO="$S" /verif/check "$P" ${TIER:+--tier $TIER}; rc=$?
rm -rf "$S"
echo "exit=$rc"
