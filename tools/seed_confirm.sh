#!/bin/sh
# tools/seed_confirm.sh <Cnn> <i> <crate: typegen|description> <demo-file>
# Confirms, in the agent's scratch worktree, that the seeded change (a) applies, (b) keeps the 54 tests green,
# (c) makes the demo fail, and that the demo passes without it.  Prints a JSON-ish summary.
P=$1; I=$2; CR=$3; DEMO=$4
W=${WT_PREFIX:-/tmp/wt-}$P; D=$W/seeded/$I
cd $W || exit 2
git checkout -q -- . && git clean -fdq -e seeded -e target
PKG=scale-typegen; [ "$CR" = description ] && PKG=scale-typegen-description
T=$(basename $DEMO .rs)
mkdir -p $CR/tests && cp $D/$DEMO $CR/tests/$T.rs
cargo test -p $PKG --offline --test $T >/tmp/seed_${P}_${I}.base 2>&1; BASE=$?
git apply $D/patch.diff || { echo "{\"seed\":\"$P-$I\",\"apply\":false}"; exit 1; }
(cargo test --workspace --offline --lib && cargo test --workspace --offline --doc) >/tmp/seed_${P}_${I}.suite 2>&1; SUITE=$?
NT=$(grep -h "^test result" /tmp/seed_${P}_${I}.suite | awk '{s+=$4} END {print s}')
timeout 600 cargo test -p $PKG --offline --test $T >/tmp/seed_${P}_${I}.demo 2>&1; DEMO_RC=$?
git checkout -q -- . && rm -rf $CR/tests
echo "{\"seed\":\"$P-$I\",\"demo_without_change_rc\":$BASE,\"suite_with_change_rc\":$SUITE,\"suite_tests_passed\":$NT,\"demo_with_change_rc\":$DEMO_RC}"
