// ===== U-SIMILAR spec vocabulary (from C11: "The similar-path query returns exactly the registry paths whose final identifier equals
// the query's, in registry order.") =====
/// what one registry entry contributes for a query whose final identifier is q
pub open spec fn sim_item(t: PortableType, q: Seq<char>) -> Option<SynPath> {
    if t.ty.path.segments@.len() > 0 && t.ty.path.segments@.last()@ == q { Some(syn_of(t.ty.path.segments@)) } else { None }
}
/// the contributions of the registry entries, in registry order
pub open spec fn sim(ts: Seq<PortableType>, q: Seq<char>) -> Seq<SynPath> decreases ts.len() {
    if ts.len() == 0 { Seq::empty() } else if sim_item(ts.last(), q) is Some { sim(ts.drop_last(), q).push(sim_item(ts.last(), q)->0) } else { sim(ts.drop_last(), q) }
}
pub open spec fn similar_post(types: PortableRegistry, path: SynPath, r: Seq<SynPath>) -> bool {
    if query_segs(path).len() == 0 { r.len() == 0 } else { r == sim(types.types@, query_segs(path).last()) }
}
pub proof fn lemma_sim(ts: Seq<PortableType>, q: Seq<char>, outs: Seq<Option<SynPath>>)
    requires outs.len() == ts.len(), forall|i: int| 0 <= i < ts.len() ==> #[trigger] outs[i] == sim_item(ts[i], q),
    ensures somes(outs) == sim(ts, q),
    decreases ts.len()
{
    if ts.len() > 0 {
        lemma_sim(ts.drop_last(), q, outs.drop_last());
    }
}
