// ===== U-DESCR: no extra vocabulary (uses wseq of U-FMT and unformatted_of of the shim) =====
