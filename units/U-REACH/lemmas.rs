// ===== U-REACH spec vocabulary and lemmas (verified by Verus; no assume/admit) =====
// Edge relations are taken from the PROPERTY (C08) and the documented meaning of `recursive`
// ("types mentioned as fields or type parameters"), not from the code:
//   succ   = edges a recursive derive is REQUIRED to follow
//   succp  = succ + bit-sequence store/order = edges a traversal is PERMITTED to follow

pub open spec fn rlen(r: &PortableRegistry) -> int { r.types@.len() as int }

pub open spec fn ty_at(r: &PortableRegistry, x: u32) -> Type { r.types@[x as int].ty }

pub open spec fn fields_mention(fs: Seq<Field>, y: u32) -> bool {
    exists|i: int| 0 <= i < fs.len() && #[trigger] fs[i].ty.id == y
}

pub open spec fn def_succ(d: TypeDef, y: u32) -> bool {
    match d {
        TypeDef::Composite(c) => fields_mention(c.fields@, y),
        TypeDef::Variant(v) => exists|i: int| 0 <= i < v.variants@.len() && fields_mention(#[trigger] v.variants@[i].fields@, y),
        TypeDef::Sequence(s) => s.type_param.id == y,
        TypeDef::Array(a) => a.type_param.id == y,
        TypeDef::Tuple(t) => exists|i: int| 0 <= i < t.fields@.len() && #[trigger] t.fields@[i].id == y,
        TypeDef::Primitive(_) => false,
        TypeDef::Compact(c) => c.type_param.id == y,
        TypeDef::BitSequence(_) => false,
    }
}

pub open spec fn params_mention(ps: Seq<TypeParameter>, y: u32) -> bool {
    exists|i: int| 0 <= i < ps.len() && (#[trigger] ps[i]).ty == Some(UntrackedSymbol { id: y })
}

pub open spec fn succ(r: &PortableRegistry, x: u32, y: u32) -> bool {
    (x as int) < rlen(r) && (params_mention(ty_at(r, x).type_params@, y) || def_succ(ty_at(r, x).type_def, y))
}

pub open spec fn succp(r: &PortableRegistry, x: u32, y: u32) -> bool {
    succ(r, x, y) || ((x as int) < rlen(r) && match ty_at(r, x).type_def {
        TypeDef::BitSequence(b) => b.bit_store_type.id == y || b.bit_order_type.id == y,
        _ => false,
    })
}

/// every id mentioned anywhere resolves (DESIGN.md section 3, clause 2) -- the precondition the
/// `expect("Should contain this id, if Registry not corrupted")` in the code asks for
pub open spec fn closed(r: &PortableRegistry) -> bool {
    forall|x: u32, y: u32| #![trigger succp(r, x, y)] succp(r, x, y) ==> (y as int) < rlen(r)
}

pub open spec fn is_path(r: &PortableRegistry, p: Seq<u32>) -> bool {
    p.len() >= 1 && forall|i: int| 0 <= i < p.len() - 1 ==> succp(r, #[trigger] p[i], p[i + 1])
}

/// b is reachable from a along permitted edges (reflexive, transitive)
pub open spec fn reachp(r: &PortableRegistry, a: u32, b: u32) -> bool {
    exists|p: Seq<u32>| is_path(r, p) && p[0] == a && #[trigger] p.last() == b
}

pub open spec fn is_spath(r: &PortableRegistry, p: Seq<u32>) -> bool {
    p.len() >= 1 && forall|i: int| 0 <= i < p.len() - 1 ==> succ(r, #[trigger] p[i], p[i + 1])
}

/// b is reachable from a along REQUIRED edges
pub open spec fn reach(r: &PortableRegistry, a: u32, b: u32) -> bool {
    exists|p: Seq<u32>| is_spath(r, p) && p[0] == a && #[trigger] p.last() == b
}

pub proof fn lemma_reachp_refl(r: &PortableRegistry, a: u32)
    ensures reachp(r, a, a)
{
    let p = seq![a];
    assert(is_path(r, p) && p[0] == a && p.last() == a);
}

pub proof fn lemma_reachp_step(r: &PortableRegistry, a: u32, b: u32, c: u32)
    requires succp(r, a, b), reachp(r, b, c)
    ensures reachp(r, a, c)
{
    let p = choose|p: Seq<u32>| is_path(r, p) && p[0] == b && #[trigger] p.last() == c;
    let q = seq![a] + p;
    assert forall|i: int| 0 <= i < q.len() - 1 implies succp(r, #[trigger] q[i], q[i + 1]) by {
        if i == 0 { assert(q[0] == a && q[1] == p[0]); } else { assert(q[i] == p[i - 1] && q[i + 1] == p[i]); }
    }
    assert(is_path(r, q) && q[0] == a && q.last() == c);
}

/// the new part of `cur` relative to `old`: what this call (so far) has added
pub open spec fn grown(r: &PortableRegistry, id: u32, old: Set<u32>, cur: Set<u32>) -> bool {
    &&& old.subset_of(cur)
    &&& forall|x: u32| #![trigger cur.contains(x)] cur.contains(x) && !old.contains(x) ==> (x as int) < rlen(r) && reachp(r, id, x)
}

/// every NEW member other than `id` already has all its required successors in the set
pub open spec fn closed_except(r: &PortableRegistry, id: u32, old: Set<u32>, cur: Set<u32>) -> bool {
    forall|x: u32, y: u32| #![trigger succ(r, x, y)] cur.contains(x) && !old.contains(x) && x != id && succ(r, x, y) ==> cur.contains(y)
}

// ---- termination measure: ids below len that are not yet collected ----
pub open spec fn below(n: nat) -> Set<u32>
    decreases n
{
    if n == 0 { Set::empty() } else { below((n - 1) as nat).insert((n - 1) as u32) }
}

pub proof fn lemma_below(n: nat)
    requires n <= u32::MAX as nat + 1
    ensures below(n).len() == n, forall|x: u32| below(n).contains(x) <==> (x as nat) < n
    decreases n
{
    if n > 0 { lemma_below((n - 1) as nat); }
}

pub open spec fn cap(r: &PortableRegistry) -> nat {
    if rlen(r) <= u32::MAX as int + 1 { rlen(r) as nat } else { (u32::MAX as int + 1) as nat }
}

pub open spec fn remaining(r: &PortableRegistry, c: Set<u32>) -> Set<u32> {
    below(cap(r)).difference(c)
}

pub proof fn lemma_remaining_decreases(r: &PortableRegistry, old: Set<u32>, cur: Set<u32>, id: u32)
    requires old.subset_of(cur), cur.contains(id), !old.contains(id), (id as int) < rlen(r)
    ensures remaining(r, cur).len() < remaining(r, old).len()
{
    lemma_below(cap(r));
    let a = remaining(r, cur);
    let b = remaining(r, old);
    assert(b.contains(id));
    assert(a.subset_of(b.remove(id)));
    lemma_len_subset(a, b.remove(id));
}

/// Corollary used by C08: called with an empty set, the result contains everything reachable
/// along REQUIRED edges (the recursive set is closed) ...
pub proof fn lemma_closed_contains_reach(r: &PortableRegistry, id: u32, s: Set<u32>, b: u32)
    requires
        s.contains(id),
        forall|x: u32, y: u32| s.contains(x) && succ(r, x, y) ==> s.contains(y),
        reach(r, id, b),
    ensures s.contains(b)
{
    let p = choose|p: Seq<u32>| is_spath(r, p) && p[0] == id && #[trigger] p.last() == b;
    lemma_spath_inside(r, s, p, p.len() - 1);
}

pub proof fn lemma_spath_inside(r: &PortableRegistry, s: Set<u32>, p: Seq<u32>, k: int)
    requires
        is_spath(r, p), s.contains(p[0]), 0 <= k < p.len(),
        forall|x: u32, y: u32| s.contains(x) && succ(r, x, y) ==> s.contains(y),
    ensures s.contains(p[k])
    decreases k
{
    if k > 0 {
        lemma_spath_inside(r, s, p, k - 1);
        assert(succ(r, p[k - 1], p[k]));
    }
}

// ---- the traversal invariant -------------------------------------------------------------
pub open spec fn inv(r: &PortableRegistry, id: u32, old: Set<u32>, cur: Set<u32>) -> bool {
    &&& closed(r)
    &&& (id as int) < rlen(r)
    &&& !old.contains(id)
    &&& cur.contains(id)
    &&& grown(r, id, old, cur)
    &&& closed_except(r, id, old, cur)
    &&& remaining(r, cur).len() < remaining(r, old).len()
}

/// what a (recursive) call on `child` promises about the step from `before` to `after`
pub open spec fn call_post(r: &PortableRegistry, child: u32, before: Set<u32>, after: Set<u32>) -> bool {
    &&& before.subset_of(after)
    &&& after.contains(child)
    &&& forall|x: u32| #![trigger after.contains(x)] after.contains(x) && !before.contains(x) ==> (x as int) < rlen(r) && reachp(r, child, x)
    &&& forall|x: u32, y: u32| #![trigger succ(r, x, y)] after.contains(x) && !before.contains(x) && succ(r, x, y) ==> after.contains(y)
}

pub open spec fn params_done(ps: Seq<TypeParameter>, n: int, cur: Set<u32>) -> bool {
    forall|j: int| 0 <= j < n && j < ps.len() && (#[trigger] ps[j]).ty is Some ==> cur.contains(ps[j].ty->0.id)
}

pub open spec fn fields_done(fs: Seq<Field>, n: int, cur: Set<u32>) -> bool {
    forall|j: int| 0 <= j < n && j < fs.len() ==> cur.contains((#[trigger] fs[j]).ty.id)
}

pub open spec fn tuple_done(fs: Seq<UntrackedSymbol>, n: int, cur: Set<u32>) -> bool {
    forall|j: int| 0 <= j < n && j < fs.len() ==> cur.contains((#[trigger] fs[j]).id)
}

pub open spec fn variants_done(vs: Seq<Variant>, n: int, cur: Set<u32>) -> bool {
    forall|j: int| 0 <= j < n && j < vs.len() ==> fields_done((#[trigger] vs[j]).fields@, vs[j].fields@.len() as int, cur)
}

pub proof fn lemma_inv_init(r: &PortableRegistry, id: u32, old: Set<u32>)
    requires closed(r), (id as int) < rlen(r), !old.contains(id)
    ensures inv(r, id, old, old.insert(id))
{
    lemma_reachp_refl(r, id);
    lemma_remaining_decreases(r, old, old.insert(id), id);
}

/// one recursive call on a permitted successor keeps the invariant
pub broadcast proof fn lemma_after_call(r: &PortableRegistry, id: u32, old: Set<u32>, before: Set<u32>, after: Set<u32>, child: u32)
    requires inv(r, id, old, before), succp(r, id, child), call_post(r, child, before, after)
    ensures #![trigger inv(r, id, old, before), call_post(r, child, before, after)] inv(r, id, old, after)
{
    assert forall|x: u32| after.contains(x) && !old.contains(x) implies (x as int) < rlen(r) && reachp(r, id, x) by {
        if !before.contains(x) { lemma_reachp_step(r, id, child, x); }
    }
    lemma_below(cap(r));
    assert(remaining(r, after).subset_of(remaining(r, before)));
    lemma_len_subset(remaining(r, after), remaining(r, before));
}

/// the children facts are stable under growth of the set
pub broadcast proof fn lemma_params_mono(r: &PortableRegistry, child: u32, ps: Seq<TypeParameter>, n: int, a: Set<u32>, b: Set<u32>)
    requires params_done(ps, n, a), call_post(r, child, a, b)
    ensures #![trigger params_done(ps, n, a), call_post(r, child, a, b)] params_done(ps, n, b)
{}

pub broadcast proof fn lemma_fields_mono(r: &PortableRegistry, child: u32, fs: Seq<Field>, n: int, a: Set<u32>, b: Set<u32>)
    requires fields_done(fs, n, a), call_post(r, child, a, b)
    ensures #![trigger fields_done(fs, n, a), call_post(r, child, a, b)] fields_done(fs, n, b)
{}

pub broadcast proof fn lemma_tuple_mono(r: &PortableRegistry, child: u32, fs: Seq<UntrackedSymbol>, n: int, a: Set<u32>, b: Set<u32>)
    requires tuple_done(fs, n, a), call_post(r, child, a, b)
    ensures #![trigger tuple_done(fs, n, a), call_post(r, child, a, b)] tuple_done(fs, n, b)
{}

pub broadcast proof fn lemma_variants_mono(r: &PortableRegistry, child: u32, vs: Seq<Variant>, n: int, a: Set<u32>, b: Set<u32>)
    requires variants_done(vs, n, a), call_post(r, child, a, b)
    ensures #![trigger variants_done(vs, n, a), call_post(r, child, a, b)] variants_done(vs, n, b)
{
    assert forall|j: int| 0 <= j < n && j < vs.len() implies fields_done((#[trigger] vs[j]).fields@, vs[j].fields@.len() as int, b) by {
        assert(fields_done(vs[j].fields@, vs[j].fields@.len() as int, a));
    }
}

pub broadcast group group_reach {
    lemma_after_call,
    lemma_params_mono,
    lemma_fields_mono,
    lemma_tuple_mono,
    lemma_variants_mono,
}

/// all children of `id` are in the set  ==>  the postconditions of the contract
pub open spec fn children_done(ty: Type, cur: Set<u32>) -> bool {
    &&& params_done(ty.type_params@, ty.type_params@.len() as int, cur)
    &&& match ty.type_def {
        TypeDef::Composite(c) => fields_done(c.fields@, c.fields@.len() as int, cur),
        TypeDef::Variant(v) => variants_done(v.variants@, v.variants@.len() as int, cur),
        TypeDef::Sequence(s) => cur.contains(s.type_param.id),
        TypeDef::Array(a) => cur.contains(a.type_param.id),
        TypeDef::Tuple(t) => tuple_done(t.fields@, t.fields@.len() as int, cur),
        TypeDef::Primitive(_) => true,
        TypeDef::Compact(c) => cur.contains(c.type_param.id),
        TypeDef::BitSequence(_) => true,
    }
}

pub proof fn lemma_finish(r: &PortableRegistry, id: u32, old: Set<u32>, cur: Set<u32>)
    requires inv(r, id, old, cur), children_done(ty_at(r, id), cur)
    ensures call_post(r, id, old, cur)
{
    let ty = ty_at(r, id);
    assert forall|y: u32| succ(r, id, y) implies cur.contains(y) by {
        if params_mention(ty.type_params@, y) {
            let i = choose|i: int| 0 <= i < ty.type_params@.len() && (#[trigger] ty.type_params@[i]).ty == Some(UntrackedSymbol { id: y });
            assert(ty.type_params@[i].ty is Some);
        } else {
            match ty.type_def {
                TypeDef::Composite(c) => {
                    let i = choose|i: int| 0 <= i < c.fields@.len() && #[trigger] c.fields@[i].ty.id == y;
                }
                TypeDef::Variant(v) => {
                    let i = choose|i: int| 0 <= i < v.variants@.len() && fields_mention(#[trigger] v.variants@[i].fields@, y);
                    let fs = v.variants@[i].fields@;
                    let j = choose|j: int| 0 <= j < fs.len() && #[trigger] fs[j].ty.id == y;
                    assert(fields_done(fs, fs.len() as int, cur));
                }
                TypeDef::Tuple(t) => {
                    let i = choose|i: int| 0 <= i < t.fields@.len() && #[trigger] t.fields@[i].id == y;
                }
                _ => {}
            }
        }
    }
}

// ---- edge witnesses (so that no proof step depends on the solver guessing an existential) ----
pub proof fn lemma_succ_param(r: &PortableRegistry, id: u32, i: int)
    requires (id as int) < rlen(r), 0 <= i < ty_at(r, id).type_params@.len(), ty_at(r, id).type_params@[i].ty is Some
    ensures succ(r, id, ty_at(r, id).type_params@[i].ty->0.id), succp(r, id, ty_at(r, id).type_params@[i].ty->0.id)
{
    let ps = ty_at(r, id).type_params@;
    let y = ps[i].ty->0.id;
    assert(ps[i].ty == Some(UntrackedSymbol { id: y }));
    assert(params_mention(ps, y));
}

pub proof fn lemma_succ_composite(r: &PortableRegistry, id: u32, i: int)
    requires (id as int) < rlen(r), ty_at(r, id).type_def is Composite, 0 <= i < ty_at(r, id).type_def->Composite_0.fields@.len()
    ensures succ(r, id, ty_at(r, id).type_def->Composite_0.fields@[i].ty.id), succp(r, id, ty_at(r, id).type_def->Composite_0.fields@[i].ty.id)
{
    let fs = ty_at(r, id).type_def->Composite_0.fields@;
    assert(fields_mention(fs, fs[i].ty.id));
}

pub proof fn lemma_succ_variant(r: &PortableRegistry, id: u32, i: int, j: int)
    requires
        (id as int) < rlen(r), ty_at(r, id).type_def is Variant,
        0 <= i < ty_at(r, id).type_def->Variant_0.variants@.len(),
        0 <= j < ty_at(r, id).type_def->Variant_0.variants@[i].fields@.len(),
    ensures succ(r, id, ty_at(r, id).type_def->Variant_0.variants@[i].fields@[j].ty.id), succp(r, id, ty_at(r, id).type_def->Variant_0.variants@[i].fields@[j].ty.id)
{
    let vs = ty_at(r, id).type_def->Variant_0.variants@;
    let fs = vs[i].fields@;
    assert(fields_mention(fs, fs[j].ty.id));
    assert(def_succ(ty_at(r, id).type_def, fs[j].ty.id));
}

pub proof fn lemma_succ_tuple(r: &PortableRegistry, id: u32, i: int)
    requires (id as int) < rlen(r), ty_at(r, id).type_def is Tuple, 0 <= i < ty_at(r, id).type_def->Tuple_0.fields@.len()
    ensures succ(r, id, ty_at(r, id).type_def->Tuple_0.fields@[i].id), succp(r, id, ty_at(r, id).type_def->Tuple_0.fields@[i].id)
{
    let fs = ty_at(r, id).type_def->Tuple_0.fields@;
    assert(def_succ(ty_at(r, id).type_def, fs[i].id));
}

pub proof fn lemma_succ_direct(r: &PortableRegistry, id: u32)
    requires (id as int) < rlen(r)
    ensures match ty_at(r, id).type_def {
        TypeDef::Sequence(s) => succ(r, id, s.type_param.id) && succp(r, id, s.type_param.id),
        TypeDef::Array(a) => succ(r, id, a.type_param.id) && succp(r, id, a.type_param.id),
        TypeDef::Compact(c) => succ(r, id, c.type_param.id) && succp(r, id, c.type_param.id),
        TypeDef::BitSequence(b) => succp(r, id, b.bit_store_type.id) && succp(r, id, b.bit_order_type.id),
        _ => true,
    }
{
}
