// ===== U-SANITY spec vocabulary =====
pub open spec fn ids_consistent(r: &PortableRegistry) -> bool {
    forall|i: int| 0 <= i < r.types@.len() ==> (#[trigger] r.types@[i]).id == i
}

/// the reported pair is a genuine mismatch (which one is reported is not pinned by the property)
pub open spec fn names_a_mismatch(r: &PortableRegistry, e: TypegenError) -> bool {
    match e {
        TypegenError::RegistryTypeIdsInvalid { given_ty_id, expected_ty_id, ty_def } =>
            (expected_ty_id as int) < r.types@.len()
            && given_ty_id == r.types@[expected_ty_id as int].id
            && given_ty_id != expected_ty_id,
        _ => false,
    }
}
