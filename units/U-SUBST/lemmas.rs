// ===== U-SUBST: no extra vocabulary =====
