// ===== U-SUBST: no extra vocabulary =====

// ---- extend: the rules after inserting the first n elements (all of them accepted) ----
pub open spec fn all_parsed(items: Seq<(SynPath, AbsolutePath)>, n: int) -> bool {
    forall|j: int| 0 <= j < n ==> parsed((#[trigger] items[j]).0, items[j].1.0) is Ok
}
pub open spec fn rules_after(r0: Map<Seq<Seq<char>>, Substitute>, items: Seq<(SynPath, AbsolutePath)>, n: int) -> Map<Seq<Seq<char>>, Substitute>
    decreases n
{
    if n <= 0 { r0 } else {
        let p = parsed(items[n - 1].0, items[n - 1].1.0)->Ok_0;
        rules_after(r0, items, n - 1).insert(key_of(p.0), p.1)
    }
}
