// ===== U-DESCTEXT spec vocabulary (from C13: "its text names every field, variant ... tuple arity ... correctly and in order") =====
/// the items ds[0..k), each followed by a comma unless it is the last of the list -- and, for tuples (single_comma), also when it is the
/// only one: `(x,)`
pub open spec fn items_upto(ds: Seq<Seq<char>>, k: int, single_comma: bool) -> Seq<char> decreases k {
    if k <= 0 { Seq::empty() } else {
        items_upto(ds, k - 1, single_comma) + ds[k - 1] + (if k < ds.len() || (single_comma && ds.len() == 1) { seq![','] } else { Seq::<char>::empty() })
    }
}
/// the same, with "more follow" judged against a fixed final count n (the ghost list grows during the loop)
pub open spec fn items_upto_n(ds: Seq<Seq<char>>, k: int, n: int, single_comma: bool) -> Seq<char> decreases k {
    if k <= 0 { Seq::empty() } else {
        items_upto_n(ds, k - 1, n, single_comma) + ds[k - 1] + (if k < n || (single_comma && n == 1) { seq![','] } else { Seq::<char>::empty() })
    }
}
pub open spec fn list_text(out: Seq<char>, open: char, close: char, single_comma: bool, ds: Seq<Seq<char>>) -> bool {
    out == seq![open] + items_upto(ds, ds.len() as int, single_comma) + seq![close]
}
pub open spec fn tuple_post(t: DescTransformer, tuple: TypeDefTuple, out: Seq<char>) -> bool {
    exists|ds: Seq<Seq<char>>| #![auto] ds.len() == tuple.fields@.len() && (forall|i: int| 0 <= i < ds.len() ==> is_descr(t, #[trigger] ds[i], tuple.fields@[i].id))
        && list_text(out, '(', ')', true, ds)
}
pub open spec fn variants_post(t: DescTransformer, v: TypeDefVariant, out: Seq<char>) -> bool {
    exists|ds: Seq<Seq<char>>| #![auto] ds.len() == v.variants@.len() && (forall|i: int| 0 <= i < ds.len() ==> is_variant_descr(t, #[trigger] ds[i], v.variants@[i]))
        && list_text(out, '{', '}', false, ds)
}
pub open spec fn all_named(f: Seq<Field>) -> bool { forall|i: int| 0 <= i < f.len() ==> (#[trigger] f[i]).name is Some }
pub open spec fn all_unnamed(f: Seq<Field>) -> bool { forall|i: int| 0 <= i < f.len() ==> (#[trigger] f[i]).name is None }
pub open spec fn fields_post(t: DescTransformer, f: Seq<Field>, r: AnyResult<String>) -> bool {
    if f.len() == 0 { r is Ok && r->Ok_0@ == seq!['(', ')'] }
    else {
        (!all_named(f) && !all_unnamed(f) ==> r is Err)
        && (r is Ok ==> exists|ds: Seq<Seq<char>>| #![auto] ds.len() == f.len() && (forall|i: int| 0 <= i < ds.len() ==> is_field_descr(t, #[trigger] ds[i], f[i]))
            && ((all_named(f) && list_text(r->Ok_0@, '{', '}', false, ds)) || (all_unnamed(f) && list_text(r->Ok_0@, '(', ')', false, ds))))
    }
}
pub proof fn lemma_upto_n_ext(a: Seq<Seq<char>>, b: Seq<Seq<char>>, k: int, n: int, sc: bool)
    requires 0 <= k <= a.len(), k <= b.len(), forall|i: int| 0 <= i < k ==> a[i] == b[i],
    ensures items_upto_n(a, k, n, sc) == items_upto_n(b, k, n, sc),
    decreases k
{ if k > 0 { lemma_upto_n_ext(a, b, k - 1, n, sc); } }
pub proof fn lemma_upto_n_push(ds0: Seq<Seq<char>>, d: Seq<char>, n: int, sc: bool)
    ensures items_upto_n(ds0.push(d), ds0.len() as int + 1, n, sc) == items_upto_n(ds0, ds0.len() as int, n, sc) + d + (if ds0.len() + 1 < n || (sc && n == 1) { seq![','] } else { Seq::<char>::empty() }),
{ lemma_upto_n_ext(ds0, ds0.push(d), ds0.len() as int, n, sc); }
pub proof fn lemma_upto_n_k(ds: Seq<Seq<char>>, k: int, sc: bool)
    requires 0 <= k <= ds.len(),
    ensures items_upto_n(ds, k, ds.len() as int, sc) == items_upto(ds, k, sc),
    decreases k
{ if k > 0 { lemma_upto_n_k(ds, k - 1, sc); } }
pub proof fn lemma_upto_n_full(ds: Seq<Seq<char>>, sc: bool)
    ensures items_upto_n(ds, ds.len() as int, ds.len() as int, sc) == items_upto(ds, ds.len() as int, sc),
{ lemma_upto_n_k(ds, ds.len() as int, sc); }
