// ===== U-DESCTEXT spec vocabulary (from C13: "its text names every field, variant ... tuple arity ... correctly and in order") =====
/// the items ds[0..k), each followed by a comma unless it is the last of the list -- and, for tuples (single_comma), also when it is the
/// only one: `(x,)`
pub open spec fn items_upto(ds: Seq<Seq<char>>, k: int, single_comma: bool) -> Seq<char> decreases k {
    if k <= 0 { Seq::empty() } else {
        items_upto(ds, k - 1, single_comma) + ds[k - 1] + (if k < ds.len() || (single_comma && ds.len() == 1) { seq![','] } else { Seq::<char>::empty() })
    }
}
/// the same, with "more follow" judged against a fixed final count n (the ghost list grows during the loop)
pub open spec fn items_upto_n(ds: Seq<Seq<char>>, k: int, n: int, single_comma: bool) -> Seq<char> decreases k {
    if k <= 0 { Seq::empty() } else {
        items_upto_n(ds, k - 1, n, single_comma) + ds[k - 1] + (if k < n || (single_comma && n == 1) { seq![','] } else { Seq::<char>::empty() })
    }
}
pub open spec fn list_text(out: Seq<char>, open: char, close: char, single_comma: bool, ds: Seq<Seq<char>>) -> bool {
    out == seq![open] + items_upto(ds, ds.len() as int, single_comma) + seq![close]
}
pub open spec fn tuple_post(t: DescTransformer, tuple: TypeDefTuple, out: Seq<char>) -> bool {
    exists|ds: Seq<Seq<char>>| #![auto] ds.len() == tuple.fields@.len() && (forall|i: int| 0 <= i < ds.len() ==> is_descr(t, #[trigger] ds[i], tuple.fields@[i].id))
        && list_text(out, '(', ')', true, ds)
}
pub open spec fn variants_post(t: DescTransformer, v: TypeDefVariant, out: Seq<char>) -> bool {
    exists|ds: Seq<Seq<char>>| #![auto] ds.len() == v.variants@.len() && (forall|i: int| 0 <= i < ds.len() ==> is_variant_descr(t, #[trigger] ds[i], v.variants@[i]))
        && list_text(out, '{', '}', false, ds)
}
/// the text of one field: `name: T` or `T`, with T wrapped in `Box<..>` iff the field's type name mentions Box
pub open spec fn field_text(f: Field, d: Seq<char>) -> Seq<char> {
    let inner = if boxed_name(f) { seq!['B', 'o', 'x', '<'] + d + seq!['>'] } else { d };
    if f.name is Some { f.name->0@ + seq![':', ' '] + inner } else { inner }
}
pub open spec fn is_field_descr(t: DescTransformer, s: Seq<char>, f: Field) -> bool {
    exists|d: Seq<char>| is_descr(t, d, f.ty.id) && s == #[trigger] field_text(f, d)
}
pub open spec fn all_named(f: Seq<Field>) -> bool { forall|i: int| 0 <= i < f.len() ==> (#[trigger] f[i]).name is Some }
pub open spec fn all_unnamed(f: Seq<Field>) -> bool { forall|i: int| 0 <= i < f.len() ==> (#[trigger] f[i]).name is None }
pub open spec fn fields_text_ok(t: DescTransformer, f: Seq<Field>, s: Seq<char>) -> bool {
    if f.len() == 0 { s == seq!['(', ')'] }
    else {
        exists|ds: Seq<Seq<char>>| #![auto] ds.len() == f.len() && (forall|i: int| 0 <= i < ds.len() ==> is_field_descr(t, #[trigger] ds[i], f[i]))
            && ((all_named(f) && list_text(s, '{', '}', false, ds)) || (all_unnamed(f) && list_text(s, '(', ')', false, ds)))
    }
}
pub open spec fn fields_post(t: DescTransformer, f: Seq<Field>, r: AnyResult<String>) -> bool {
    (f.len() == 0 ==> r is Ok)
    && (f.len() > 0 && !all_named(f) && !all_unnamed(f) ==> r is Err)
    && (r is Ok ==> fields_text_ok(t, f, r->Ok_0@))
}
/// the text of one variant: its name, followed by its field list unless that is `()`
pub open spec fn is_variant_descr(t: DescTransformer, s: Seq<char>, v: Variant) -> bool {
    exists|ft: Seq<char>| fields_text_ok(t, v.fields@, ft) && s == #[trigger] variant_text(v, ft)
}
pub open spec fn variant_text(v: Variant, ft: Seq<char>) -> Seq<char> {
    if ft == seq!['(', ')'] { v.name@ } else { v.name@ + ft }
}
pub open spec fn vec_text(d: Seq<char>) -> Seq<char> { seq!['V', 'e', 'c', '<'] + d + seq!['>'] }
pub open spec fn array_text(d: Seq<char>, n: u32) -> Seq<char> { seq!['['] + d + seq![';', ' '] + dec_u32(n) + seq![']'] }
pub open spec fn compact_text(d: Seq<char>) -> Seq<char> { seq!['C', 'o', 'm', 'p', 'a', 'c', 't', '<'] + d + seq!['>'] }
pub open spec fn bitseq_text(d1: Seq<char>, d2: Seq<char>) -> Seq<char> { seq!['B', 'i', 't', 'S', 'e', 'q', 'u', 'e', 'n', 'c', 'e', '('] + d1 + seq![',', ' '] + d2 + seq![')'] }
/// the text of a type definition, one level deep, in terms of what the callees return for the children
pub open spec fn typedef_text_ok(t: DescTransformer, def: TypeDef, s: Seq<char>) -> bool {
    match def {
        TypeDef::Composite(c) => fields_text_ok(t, c.fields@, s),
        TypeDef::Variant(v) => variants_post(t, v, s),
        TypeDef::Sequence(q) => exists|d: Seq<char>| #[trigger] is_descr(t, d, q.type_param.id) && s == vec_text(d),
        TypeDef::Array(a) => exists|d: Seq<char>| #[trigger] is_descr(t, d, a.type_param.id) && s == array_text(d, a.len),
        TypeDef::Tuple(tu) => tuple_post(t, tu, s),
        TypeDef::Primitive(p) => s == prim_text(p),
        TypeDef::Compact(c) => exists|d: Seq<char>| #[trigger] is_descr(t, d, c.type_param.id) && s == compact_text(d),
        TypeDef::BitSequence(b) => exists|d1: Seq<char>, d2: Seq<char>| #[trigger] is_descr(t, d1, b.bit_order_type.id) && #[trigger] is_descr(t, d2, b.bit_store_type.id)
            && s == bitseq_text(d1, d2),
    }
}
pub open spec fn prefix_text(def: TypeDef) -> Seq<char> {
    match def {
        TypeDef::Variant(_) => seq!['e', 'n', 'u', 'm', ' '],
        TypeDef::Composite(_) => seq!['s', 't', 'r', 'u', 'c', 't', ' '],
        _ => Seq::<char>::empty(),
    }
}
pub open spec fn full_text(ty: Type, dt: Seq<char>) -> Seq<char> {
    prefix_text(ty.type_def) + (if ty.path.segments@.len() > 0 { name_text(ty) } else { Seq::<char>::empty() }) + dt
}
/// the full description of a type: `struct ` / `enum ` / nothing, the name (with its generic arguments) if the type has a path, the definition
pub open spec fn ty_text_ok(t: DescTransformer, ty: Type, s: Seq<char>) -> bool {
    exists|dt: Seq<char>| #[trigger] typedef_text_ok(t, ty.type_def, dt) && s == full_text(ty, dt)
}
pub proof fn lemma_upto_n_ext(a: Seq<Seq<char>>, b: Seq<Seq<char>>, k: int, n: int, sc: bool)
    requires 0 <= k <= a.len(), k <= b.len(), forall|i: int| 0 <= i < k ==> a[i] == b[i],
    ensures items_upto_n(a, k, n, sc) == items_upto_n(b, k, n, sc),
    decreases k
{ if k > 0 { lemma_upto_n_ext(a, b, k - 1, n, sc); } }
pub proof fn lemma_upto_n_push(ds0: Seq<Seq<char>>, d: Seq<char>, n: int, sc: bool)
    ensures items_upto_n(ds0.push(d), ds0.len() as int + 1, n, sc) == items_upto_n(ds0, ds0.len() as int, n, sc) + d + (if ds0.len() + 1 < n || (sc && n == 1) { seq![','] } else { Seq::<char>::empty() }),
{ lemma_upto_n_ext(ds0, ds0.push(d), ds0.len() as int, n, sc); }
pub proof fn lemma_upto_n_k(ds: Seq<Seq<char>>, k: int, sc: bool)
    requires 0 <= k <= ds.len(),
    ensures items_upto_n(ds, k, ds.len() as int, sc) == items_upto(ds, k, sc),
    decreases k
{ if k > 0 { lemma_upto_n_k(ds, k - 1, sc); } }
pub proof fn lemma_upto_n_full(ds: Seq<Seq<char>>, sc: bool)
    ensures items_upto_n(ds, ds.len() as int, ds.len() as int, sc) == items_upto(ds, ds.len() as int, sc),
{ lemma_upto_n_k(ds, ds.len() as int, sc); }
