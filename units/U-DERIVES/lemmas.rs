// ===== U-DERIVES spec vocabulary =====
/// the derive paths / attributes a `Derives` value stands for
pub open spec fn dset(d: Derives) -> Set<SynPath> { d.derives@ }
pub open spec fn aset(d: Derives) -> Set<SynAttribute> { d.attributes@ }

#[verifier::external_body]
pub fn empty_params() -> (r: &'static [ScaleInfoTypeParameter]) ensures r@.len() == 0 { &[] }
