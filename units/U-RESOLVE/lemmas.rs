// ===== U-RESOLVE: no extra vocabulary =====
