// ===== U-PATHS spec vocabulary (from C10: "a compact or bit-sequence type without the corresponding configured path
// [is rejected] with the respective missing-path error") =====
pub open spec fn is_compact_with(t: TypePath, p: SynPath, f: bool) -> bool {
    match t.0 {
        TypePathInner::Type(TypePathType::Compact { inner, is_field, compact_type_path }) => is_field == f && compact_type_path == p,
        _ => false,
    }
}
pub open spec fn is_bitvec_with(t: TypePath, p: SynPath) -> bool {
    match t.0 {
        TypePathInner::Type(TypePathType::BitVec { bit_order_type, bit_store_type, decoded_bits_type_path }) => decoded_bits_type_path == p,
        _ => false,
    }
}
/// the contract of the kept part, relative to what the abstracted head hands over
pub open spec fn paths_post(g: TypeGenerator, h: Head, is_field: bool, r: Result<TypePath, TypegenError>) -> bool {
    match h {
        Head::Return(r0) => r == r0,
        Head::Go(ty, params) => match ty.type_def {
            TypeDef::Compact(c) =>
                (g.settings.compact_type_path is None ==> r is Err)
                && (r is Ok ==> g.settings.compact_type_path is Some && is_compact_with(r->Ok_0, g.settings.compact_type_path->0, is_field)),
            TypeDef::BitSequence(b) =>
                (g.settings.decoded_bits_type_path is None ==> r == Err::<TypePath, TypegenError>(TypegenError::DecodedBitsPathNone))
                && (r is Ok ==> g.settings.decoded_bits_type_path is Some && is_bitvec_with(r->Ok_0, g.settings.decoded_bits_type_path->0)),
            TypeDef::Primitive(p) => r == Ok::<TypePath, TypegenError>(TypePath(TypePathInner::Type(TypePathType::Primitive { def: p }))),
            _ => true,
        },
    }
}

/// (copy of U-COMPACTAS' vocabulary) a concrete unsigned integer primitive of at most 128 bits
pub open spec fn uint128_p(tp: TypePath) -> bool {
    match tp.0 {
        TypePathInner::Type(TypePathType::Primitive { def }) =>
            def is U8 || def is U16 || def is U32 || def is U64 || def is U128,
        _ => false,
    }
}
