// ===== U-TYEX spec vocabulary (from C12: "if it returns a value, that value encodes against the same type id without error") =====
// `valid(t, v, id)` (uninterpreted, tyex_shim.rs) stands for "scale-encode accepts v against type id".  valid_def below is the acceptance
// condition of scale-encode 0.10 / scale-value 0.18 for a value against a type DEFINITION, one level deep, in terms of `valid` for the
// children: a composite / variant value against a field list (names in order, or positional), an unnamed composite against a sequence
// (every element), an array (length + every element), a tuple (arity + positions), a compact (the value itself against the inner type, for
// the registries of C12's quantifier: compact wraps unsigned integers or single-field wrappers of them), any bit sequence value against a
// bit-sequence type; a primitive per prim_shape (what U-PRIMEX's Kani harnesses prove about primitive_type_def_example).
// valid(t, v, id) <==> valid_def(t, v, registry[id].type_def) is the reading under which ty_example's postcondition is the induction step
// for Transformer::resolve's assumed contract.

/// field-list acceptance over the iterator items fields_type_example is handed
pub open spec fn fields_ok<N: NameLike>(t: ValueTransformer, c: Composite<()>, f: Seq<(Option<N>, u32)>) -> bool {
    match c {
        Composite::Named(vs) => vs@.len() == f.len() && f.len() > 0
            && forall|i: int| 0 <= i < f.len() ==> (#[trigger] f[i]).0 is Some && vs@[i].0@ == f[i].0->0.nview() && valid(t, vs@[i].1, f[i].1),
        Composite::Unnamed(vs) => vs@.len() == f.len()
            && forall|i: int| 0 <= i < f.len() ==> (#[trigger] f[i]).0 is None && valid(t, vs@[i], f[i].1),
    }
}
/// the same over a registry field list
pub open spec fn fields_ok_f(t: ValueTransformer, c: Composite<()>, f: Seq<Field>) -> bool {
    match c {
        Composite::Named(vs) => vs@.len() == f.len() && f.len() > 0
            && forall|i: int| 0 <= i < f.len() ==> (#[trigger] f[i]).name is Some && vs@[i].0@ == f[i].name->0@ && valid(t, vs@[i].1, f[i].ty.id),
        Composite::Unnamed(vs) => vs@.len() == f.len()
            && forall|i: int| 0 <= i < f.len() ==> (#[trigger] f[i]).name is None && valid(t, vs@[i], f[i].ty.id),
    }
}
pub open spec fn mixed<N>(f: Seq<(Option<N>, u32)>) -> bool {
    exists|i: int, j: int| 0 <= i < f.len() && 0 <= j < f.len() && (#[trigger] f[i]).0 is Some && (#[trigger] f[j]).0 is None
}
pub open spec fn all_valid(t: ValueTransformer, vs: Seq<Value>, id: u32) -> bool {
    forall|i: int| 0 <= i < vs.len() ==> valid(t, #[trigger] vs[i], id)
}
pub open spec fn valid_def(t: ValueTransformer, v: Value, d: TypeDef) -> bool {
    match d {
        TypeDef::Composite(c) => v.value is Composite && fields_ok_f(t, v.value->Composite_0, c.fields@),
        TypeDef::Variant(vd) => v.value is Variant && exists|k: int| 0 <= k < vd.variants@.len()
            && v.value->Variant_0.name@ == (#[trigger] vd.variants@[k]).name@ && fields_ok_f(t, v.value->Variant_0.values, vd.variants@[k].fields@),
        TypeDef::Sequence(s) => v.value is Composite && v.value->Composite_0 is Unnamed && all_valid(t, v.value->Composite_0->Unnamed_0@, s.type_param.id),
        TypeDef::Array(a) => v.value is Composite && v.value->Composite_0 is Unnamed && v.value->Composite_0->Unnamed_0@.len() == a.len
            && all_valid(t, v.value->Composite_0->Unnamed_0@, a.type_param.id),
        TypeDef::Tuple(tu) => v.value is Composite && v.value->Composite_0 is Unnamed && v.value->Composite_0->Unnamed_0@.len() == tu.fields@.len()
            && forall|i: int| 0 <= i < tu.fields@.len() ==> valid(t, #[trigger] v.value->Composite_0->Unnamed_0@[i], tu.fields@[i].id),
        TypeDef::Primitive(p) => prim_shape(v, p),
        TypeDef::Compact(c) => valid(t, v, c.type_param.id),
        TypeDef::BitSequence(b) => v.value is BitSequence,
    }
}
/// contract of the closure `|e| (e.name.as_ref(), e.ty.id)` over a registry field
pub open spec fn item_of_field(o: (Option<&String>, u32), e: Field) -> bool {
    o.1 == e.ty.id && (o.0 is Some <==> e.name is Some) && (o.0 is Some ==> *o.0->0 == e.name->0)
}
/// contract of the closure `|e| (None::<&str>, e.id)` over a tuple element
pub open spec fn item_of_elem(o: (Option<&str>, u32), e: UntrackedSymbol) -> bool {
    o.1 == e.id && o.0 is None
}
pub proof fn lemma_fields(t: ValueTransformer, c: Composite<()>, s: Seq<(Option<&String>, u32)>, f: Seq<Field>)
    requires fields_ok(t, c, s), s.len() == f.len(), forall|i: int| 0 <= i < f.len() ==> item_of_field(#[trigger] s[i], f[i]),
    ensures fields_ok_f(t, c, f),
{
    match c {
        Composite::Named(vs) => {
            assert forall|i: int| 0 <= i < f.len() implies (#[trigger] f[i]).name is Some && vs@[i].0@ == f[i].name->0@ && valid(t, vs@[i].1, f[i].ty.id) by {
                assert(item_of_field(s[i], f[i]));
            }
        }
        Composite::Unnamed(vs) => {
            assert forall|i: int| 0 <= i < f.len() implies (#[trigger] f[i]).name is None && valid(t, vs@[i], f[i].ty.id) by {
                assert(item_of_field(s[i], f[i]));
            }
        }
    }
}
pub proof fn lemma_tuple(t: ValueTransformer, c: Composite<()>, s: Seq<(Option<&str>, u32)>, f: Seq<UntrackedSymbol>)
    requires fields_ok(t, c, s), s.len() == f.len(), forall|i: int| 0 <= i < f.len() ==> item_of_elem(#[trigger] s[i], f[i]),
    ensures c is Unnamed, c->Unnamed_0@.len() == f.len(), forall|i: int| 0 <= i < f.len() ==> valid(t, #[trigger] c->Unnamed_0@[i], f[i].id),
{
    match c {
        Composite::Named(vs) => { assert(item_of_elem(s[0], f[0])); }
        Composite::Unnamed(vs) => {
            assert forall|i: int| 0 <= i < f.len() implies valid(t, #[trigger] vs@[i], f[i].id) by { assert(item_of_elem(s[i], f[i])); }
        }
    }
}
