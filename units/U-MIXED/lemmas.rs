// ===== U-MIXED spec vocabulary (from the property: "a composite mixing named and unnamed fields") =====
pub open spec fn mixed(fs: Seq<Field>) -> bool {
    (exists|i: int| 0 <= i < fs.len() && (#[trigger] fs[i]).name is Some)
    && (exists|j: int| 0 <= j < fs.len() && (#[trigger] fs[j]).name is None)
}

// the result type, reduced to what the kept prefix constructs (the tail's results are opaque)
#[verifier::external_body]
pub struct NamedFieldsOpaque { _p: () }
#[verifier::external_body]
pub struct UnnamedFieldsOpaque { _p: () }
pub enum CompositeIRKind { NoFields, Named(NamedFieldsOpaque), Unnamed(UnnamedFieldsOpaque) }
