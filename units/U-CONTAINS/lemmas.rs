// ===== U-CONTAINS spec vocabulary (from the property: "... is the path of some registry type") =====
pub open spec fn same_path(a: Seq<String>, b: Seq<String>) -> bool {
    a.len() == b.len() && forall|i: int| 0 <= i < a.len() ==> (#[trigger] a[i])@ == b[i]@
}

pub open spec fn has_path(t: &PortableType, p: Seq<String>) -> bool {
    same_path(t.ty.path.segments@, p)
}
