// ===== U-FMT spec vocabulary and lemmas (verified by Verus; no assume/admit) =====
pub open spec fn is_ins(c: char) -> bool { c == ' ' || c == '\n' }

/// `o` and `i` are equal up to insertions / deletions of ' ' and '\n'
/// (the weakest relation, maintained character by character, that implies clause 1:
///  equal after removing all whitespace)
pub open spec fn wseq(o: Seq<char>, i: Seq<char>) -> bool
    decreases o.len() + i.len()
{
    if o.len() == 0 && i.len() == 0 { true }
    else {
        (o.len() > 0 && is_ins(o.last()) && wseq(o.drop_last(), i))
        || (i.len() > 0 && is_ins(i.last()) && wseq(o, i.drop_last()))
        || (o.len() > 0 && i.len() > 0 && o.last() == i.last() && wseq(o.drop_last(), i.drop_last()))
    }
}

pub open spec fn spaces(n: int) -> Seq<char>
    decreases n
{
    if n <= 0 { Seq::empty() } else { spaces(n - 1).push(' ') }
}

pub broadcast proof fn lemma_ins_push_ws(o: Seq<char>, i: Seq<char>, c: char)
    requires wseq(o, i), is_ins(c)
    ensures #![trigger wseq(o, i), o.push(c)] wseq(o.push(c), i)
{
    assert(o.push(c).drop_last() =~= o);
}

/// the formatter may also skip a blank / line break of the input
pub broadcast proof fn lemma_ins_skip_ws(o: Seq<char>, i: Seq<char>, c: char)
    requires wseq(o, i), is_ins(c)
    ensures #[trigger] wseq(o, i.push(c))
{
    assert(i.push(c).drop_last() =~= i);
}

pub broadcast proof fn lemma_ins_push_same(o: Seq<char>, i: Seq<char>, c: char)
    requires wseq(o, i)
    ensures #![trigger wseq(o, i), o.push(c)] wseq(o.push(c), i.push(c))
{
    assert(o.push(c).drop_last() =~= o);
    assert(i.push(c).drop_last() =~= i);
}

pub broadcast proof fn lemma_ins_spaces(o: Seq<char>, i: Seq<char>, n: int)
    requires wseq(o, i)
    ensures #![trigger wseq(o, i), o + spaces(n)] wseq(o + spaces(n), i)
    decreases n
{
    if n <= 0 {
        assert(o + spaces(n) =~= o);
    } else {
        lemma_ins_spaces(o, i, n - 1);
        lemma_ins_push_ws(o + spaces(n - 1), i, ' ');
        assert(o + spaces(n) =~= (o + spaces(n - 1)).push(' '));
    }
}

/// appending a one-character string is a push (so `push_str("\\n")` and `push('\\n')` give the same shape)
pub broadcast proof fn lemma_add_singleton(o: Seq<char>, s: Seq<char>)
    requires s.len() == 1
    ensures #[trigger] (o + s) == o.push(s[0])
{
    assert(o + s =~= o.push(s[0]));
}

pub broadcast proof fn lemma_add_pair(o: Seq<char>, s: Seq<char>)
    requires s.len() == 2
    ensures #[trigger] (o + s) == o.push(s[0]).push(s[1])
{
    assert(o + s =~= o.push(s[0]).push(s[1]));
}

pub broadcast proof fn lemma_add_triple(o: Seq<char>, s: Seq<char>)
    requires s.len() == 3
    ensures #[trigger] (o + s) == o.push(s[0]).push(s[1]).push(s[2])
{
    assert(o + s =~= o.push(s[0]).push(s[1]).push(s[2]));
}

pub proof fn lemma_spaces_add(a: int, b: int)
    requires a >= 0, b >= 0
    ensures spaces(a) + spaces(b) =~= spaces(a + b)
    decreases b
{
    if b > 0 {
        lemma_spaces_add(a, b - 1);
        assert(spaces(a) + spaces(b) =~= (spaces(a) + spaces(b - 1)).push(' '));
    }
}

pub proof fn lemma_four_spaces()
    ensures "    "@ =~= spaces(4)
{
    reveal_strlit("    ");
    reveal_with_fuel(spaces, 5);
}

pub open spec fn strip(s: Seq<char>, w: spec_fn(char) -> bool) -> Seq<char>
    decreases s.len()
{
    if s.len() == 0 { Seq::empty() }
    else if w(s.last()) { strip(s.drop_last(), w) }
    else { strip(s.drop_last(), w).push(s.last()) }
}

pub proof fn lemma_ins_strip(o: Seq<char>, i: Seq<char>, w: spec_fn(char) -> bool)
    requires wseq(o, i), w(' '), w('\n')
    ensures strip(o, w) == strip(i, w)
    decreases o.len() + i.len()
{
    if o.len() == 0 && i.len() == 0 {
    } else if o.len() > 0 && is_ins(o.last()) && wseq(o.drop_last(), i) {
        lemma_ins_strip(o.drop_last(), i, w);
    } else if i.len() > 0 && is_ins(i.last()) && wseq(o, i.drop_last()) {
        lemma_ins_strip(o, i.drop_last(), w);
    } else {
        lemma_ins_strip(o.drop_last(), i.drop_last(), w);
    }
}

/// number of input characters consumed so far
pub open spec fn consumed(input: Seq<char>, c: &PeekChars) -> int { input.len() - c.rest().len() }

// =============================================================================================
// C15 clause 2: indentation.  The postcondition is a predicate over the OUTPUT TEXT ALONE:
// a checker automaton reads the text left to right, keeps the stack of open scopes with a flag
// "broken over several lines" (a scope is broken iff its opener is directly followed by a line
// break), counts the spaces after every line break, and at the first non-space character of the
// line demands   spaces == 4 * (number of open broken scopes)
// where a line that starts with the closer of a broken scope is written at its opener's depth,
// and an opening brace may keep its one separating space.  No look-ahead, so run(o + w) is
// run(o) continued over w.
// =============================================================================================
pub open spec fn is_opener(c: char) -> bool { c == '{' || c == '(' || c == '<' }
pub open spec fn is_closer(c: char) -> bool { c == '}' || c == ')' || c == '>' }
pub open spec fn partner(o: char) -> char { if o == '{' { '}' } else if o == '(' { ')' } else if o == '<' { '>' } else { '?' } }

pub open spec fn cnt(s: Seq<bool>) -> int
    decreases s.len()
{
    if s.len() == 0 { 0 } else { cnt(s.drop_last()) + if s.last() { 1int } else { 0int } }
}

pub struct RS {
    pub s: Seq<bool>,   // open scopes, innermost last; true = broken over several lines
    pub ind: int,       // -1: inside a line; n >= 0: n spaces seen since the last line break
    pub lo: bool,       // the previous character was an opener
    pub ok: bool,       // every completed indentation run so far was correct
}

pub open spec fn rs_init() -> RS { RS { s: Seq::empty(), ind: -1, lo: false, ok: true } }

pub open spec fn step(r: RS, c: char) -> RS {
    if c == ' ' {
        RS { s: r.s, ind: if r.ind >= 0 { r.ind + 1 } else { r.ind }, lo: false, ok: r.ok }
    } else {
        let top = r.s.len() > 0 && r.s.last();
        let d = cnt(r.s) - if is_closer(c) && top { 1int } else { 0int };
        let good = r.ind < 0 || r.ind == 4 * d || (c == '{' && r.ind == 4 * d + 1);
        let ok = r.ok && good;
        if c == '\n' {
            RS { s: if r.lo && r.s.len() > 0 { r.s.update(r.s.len() - 1, true) } else { r.s }, ind: 0, lo: false, ok: ok }
        } else if is_opener(c) {
            RS { s: r.s.push(false), ind: -1, lo: true, ok: ok }
        } else if is_closer(c) {
            RS { s: if r.s.len() > 0 { r.s.drop_last() } else { r.s }, ind: -1, lo: false, ok: ok }
        } else {
            RS { s: r.s, ind: -1, lo: false, ok: ok }
        }
    }
}

pub open spec fn run(o: Seq<char>) -> RS
    decreases o.len()
{
    if o.len() == 0 { rs_init() } else { step(run(o.drop_last()), o.last()) }
}

/// the clause-2 postcondition: every indentation run is correct, all scopes are closed, and a
/// trailing indentation run (text ending in a line break) is at depth zero
pub open spec fn indentation_ok(o: Seq<char>) -> bool {
    let r = run(o);
    r.ok && r.s.len() == 0 && (r.ind == -1 || r.ind == 0)
}

// ---- input side: proper nesting -----------------------------------------------------------------
pub open spec fn kst(s: Seq<char>, k: int) -> Seq<char>
    decreases k
{
    if k <= 0 { Seq::empty() } else {
        let p = kst(s, k - 1);
        let c = s[k - 1];
        if is_opener(c) { p.push(c) } else if is_closer(c) && p.len() > 0 { p.drop_last() } else { p }
    }
}

pub open spec fn nested_upto(s: Seq<char>, k: int) -> bool
    decreases k
{
    if k <= 0 { true } else {
        nested_upto(s, k - 1)
        && (is_closer(s[k - 1]) ==> kst(s, k - 1).len() > 0 && partner(kst(s, k - 1).last()) == s[k - 1])
    }
}

pub open spec fn nested(s: Seq<char>) -> bool { nested_upto(s, s.len() as int) && kst(s, s.len() as int).len() == 0 }

pub open spec fn ws_free(s: Seq<char>) -> bool { forall|i: int| 0 <= i < s.len() ==> s[i] != ' ' && s[i] != '\n' }

pub open spec fn guard(s: Seq<char>) -> bool { nested(s) && ws_free(s) }

pub proof fn lemma_nested_prefix(s: Seq<char>, n: int, m: int)
    requires nested_upto(s, n), 0 <= m <= n
    ensures nested_upto(s, m)
    decreases n - m
{
    if m < n { lemma_nested_prefix(s, n, m + 1); }
}

// ---- linking the real state to the checker state ---------------------------------------------------
/// the flags of the scopes of kind K, innermost last
pub open spec fn proj(ks: Seq<char>, fs: Seq<bool>, kind: char) -> Seq<bool>
    decreases ks.len()
{
    if ks.len() == 0 || fs.len() == 0 { Seq::empty() } else {
        let p = proj(ks.drop_last(), fs.drop_last(), kind);
        if ks.last() == kind { p.push(fs.last()) } else { p }
    }
}

pub open spec fn braces_broken(ks: Seq<char>, fs: Seq<bool>) -> bool {
    forall|i: int| 0 <= i < ks.len() && i < fs.len() && ks[i] == '{' ==> fs[i]
}

pub open spec fn mirrors(v: Seq<Scope>, p: Seq<bool>) -> bool {
    v.len() == p.len() && forall|i: int| 0 <= i < v.len() ==> ((#[trigger] v[i]) is Big) == p[i]
}

/// the loop invariant of clause 2 (k characters consumed)
pub open spec fn ind_inv(input: Seq<char>, k: int, output: Seq<char>, indent_level: int, tuple_level: Seq<Scope>, angle_level: Seq<Scope>) -> bool {
    let r = run(output);
    let ks = kst(input, k);
    &&& r.ok
    &&& r.s.len() == ks.len()
    &&& cnt(r.s) == indent_level
    &&& (r.ind == -1 || (r.ind == 4 * indent_level && !r.lo))
    &&& (r.lo ==> r.s.len() > 0 && !r.s.last() && ks.last() != '{')
    &&& braces_broken(ks, r.s)
    &&& mirrors(tuple_level, proj(ks, r.s, '('))
    &&& mirrors(angle_level, proj(ks, r.s, '<'))
}

pub broadcast proof fn lemma_run_push(o: Seq<char>, c: char)
    ensures #[trigger] run(o.push(c)) == step(run(o), c)
{
    assert(o.push(c).drop_last() =~= o);
}

pub open spec fn add_spaces(r: RS, n: int) -> RS {
    if n <= 0 { r } else { RS { s: r.s, ind: if r.ind >= 0 { r.ind + n } else { r.ind }, lo: false, ok: r.ok } }
}

pub broadcast proof fn lemma_run_spaces(o: Seq<char>, n: int)
    ensures #[trigger] run(o + spaces(n)) == add_spaces(run(o), n)
    decreases n
{
    if n <= 0 {
        assert(o + spaces(n) =~= o);
    } else {
        lemma_run_spaces(o, n - 1);
        assert(o + spaces(n) =~= (o + spaces(n - 1)).push(' '));
        lemma_run_push(o + spaces(n - 1), ' ');
    }
}

pub broadcast proof fn lemma_cnt_bounds(s: Seq<bool>)
    ensures 0 <= #[trigger] cnt(s) <= s.len()
    decreases s.len()
{
    if s.len() > 0 { lemma_cnt_bounds(s.drop_last()); }
}

pub broadcast proof fn lemma_cnt_push(s: Seq<bool>, b: bool)
    ensures #[trigger] cnt(s.push(b)) == cnt(s) + if b { 1int } else { 0int }
{
    assert(s.push(b).drop_last() =~= s);
}

pub broadcast proof fn lemma_cnt_set_last(s: Seq<bool>)
    requires s.len() > 0
    ensures #[trigger] cnt(s.update(s.len() - 1, true)) == cnt(s) + if s.last() { 0int } else { 1int }
{
    assert(s.update(s.len() - 1, true).drop_last() =~= s.drop_last());
}

pub broadcast proof fn lemma_proj_push(ks: Seq<char>, fs: Seq<bool>, kind: char, c: char, b: bool)
    requires ks.len() == fs.len()
    ensures #[trigger] proj(ks.push(c), fs.push(b), kind) == if c == kind { proj(ks, fs, kind).push(b) } else { proj(ks, fs, kind) }
{
    assert(ks.push(c).drop_last() =~= ks);
    assert(fs.push(b).drop_last() =~= fs);
}

pub broadcast proof fn lemma_proj_pop(ks: Seq<char>, fs: Seq<bool>, kind: char)
    requires ks.len() == fs.len(), ks.len() > 0
    ensures #[trigger] proj(ks.drop_last(), fs.drop_last(), kind) == if ks.last() == kind { proj(ks, fs, kind).drop_last() } else { proj(ks, fs, kind) },
            ks.last() == kind ==> proj(ks, fs, kind).len() > 0 && proj(ks, fs, kind).last() == fs.last(),
{
    let p = proj(ks.drop_last(), fs.drop_last(), kind);
    if ks.last() == kind { assert(p.push(fs.last()).drop_last() =~= p); }
}

pub broadcast proof fn lemma_proj_set_last(ks: Seq<char>, fs: Seq<bool>, kind: char)
    requires ks.len() == fs.len(), ks.len() > 0
    ensures #[trigger] proj(ks, fs.update(fs.len() - 1, true), kind)
        == if ks.last() == kind { proj(ks, fs, kind).update(proj(ks, fs, kind).len() - 1, true) } else { proj(ks, fs, kind) }
{
    let fs2 = fs.update(fs.len() - 1, true);
    assert(fs2.drop_last() =~= fs.drop_last());
    let p = proj(ks.drop_last(), fs.drop_last(), kind);
    if ks.last() == kind {
        assert(p.push(true) =~= p.push(fs.last()).update(p.len() as int, true));
    }
}


// ---- transition lemmas: one per way an arm of the formatter extends the output ----------------------
// Each is proved once, in isolation, with every step spelled out, so that the obligations left inside the
// extracted function are only "the output has this shape" and "the lemma's precondition holds".
pub open spec fn arm_pre(input: Seq<char>, k: int, o0: Seq<char>, l0: int, tl0: Seq<Scope>, al0: Seq<Scope>, c: char) -> bool {
    &&& 1 <= k <= input.len()
    &&& nested_upto(input, k)
    &&& ind_inv(input, k - 1, o0, l0, tl0, al0)
    &&& input[k - 1] == c
    &&& c != ' ' && c != '\n'
}

pub proof fn lemma_cnt_drop_last(s: Seq<bool>)
    requires s.len() > 0
    ensures cnt(s.drop_last()) == cnt(s) - if s.last() { 1int } else { 0int }
{}

pub proof fn lemma_braces_push(ks: Seq<char>, fs: Seq<bool>, c: char, b: bool)
    requires ks.len() == fs.len(), braces_broken(ks, fs), c == '{' ==> b
    ensures braces_broken(ks.push(c), fs.push(b))
{}

pub proof fn lemma_braces_pop(ks: Seq<char>, fs: Seq<bool>)
    requires ks.len() == fs.len(), ks.len() > 0, braces_broken(ks, fs)
    ensures braces_broken(ks.drop_last(), fs.drop_last())
{}

pub proof fn lemma_braces_set_last(ks: Seq<char>, fs: Seq<bool>)
    requires ks.len() == fs.len(), ks.len() > 0, braces_broken(ks, fs)
    ensures braces_broken(ks, fs.update(fs.len() - 1, true))
{}

pub proof fn lemma_mirrors_push(v: Seq<Scope>, p: Seq<bool>, x: Scope, b: bool)
    requires mirrors(v, p), (x is Big) == b
    ensures mirrors(v.push(x), p.push(b))
{}

pub proof fn lemma_mirrors_pop(v: Seq<Scope>, p: Seq<bool>)
    requires mirrors(v, p), v.len() > 0
    ensures mirrors(v.drop_last(), p.drop_last()), (v.last() is Big) == p.last()
{}

/// a character that is neither a bracket nor whitespace (this includes ',')
pub proof fn lemma_arm_plain(input: Seq<char>, k: int, o0: Seq<char>, l0: int, tl0: Seq<Scope>, al0: Seq<Scope>, c: char)
    requires arm_pre(input, k, o0, l0, tl0, al0, c), !is_opener(c), !is_closer(c)
    ensures ind_inv(input, k, o0.push(c), l0, tl0, al0),
            run(o0.push(c)).ind == -1, !run(o0.push(c)).lo, run(o0.push(c)).s == run(o0).s,
{
    let r0 = run(o0);
    lemma_run_push(o0, c);
    lemma_cnt_bounds(r0.s);
    assert(kst(input, k) == kst(input, k - 1));
}

pub proof fn lemma_arm_comma_small(input: Seq<char>, k: int, o0: Seq<char>, l0: int, tl0: Seq<Scope>, al0: Seq<Scope>)
    requires arm_pre(input, k, o0, l0, tl0, al0, ',')
    ensures ind_inv(input, k, o0.push(',').push(' '), l0, tl0, al0)
{
    lemma_arm_plain(input, k, o0, l0, tl0, al0, ',');
    lemma_run_push(o0.push(','), ' ');
}

pub proof fn lemma_arm_comma_big(input: Seq<char>, k: int, o0: Seq<char>, l0: int, tl0: Seq<Scope>, al0: Seq<Scope>)
    requires arm_pre(input, k, o0, l0, tl0, al0, ',')
    ensures ind_inv(input, k, o0.push(',').push('\n') + spaces(4 * l0), l0, tl0, al0)
{
    lemma_arm_plain(input, k, o0, l0, tl0, al0, ',');
    let o1 = o0.push(',');
    lemma_run_push(o1, '\n');
    lemma_run_spaces(o1.push('\n'), 4 * l0);
    lemma_cnt_bounds(run(o0).s);
}

pub proof fn lemma_arm_open_brace(input: Seq<char>, k: int, o0: Seq<char>, l0: int, tl0: Seq<Scope>, al0: Seq<Scope>)
    requires arm_pre(input, k, o0, l0, tl0, al0, '{')
    ensures ind_inv(input, k, o0.push(' ').push('{').push('\n') + spaces(4 * (l0 + 1)), l0 + 1, tl0, al0)
{
    let r0 = run(o0);
    let ks0 = kst(input, k - 1);
    lemma_cnt_bounds(r0.s);
    lemma_run_push(o0, ' ');
    let o1 = o0.push(' ');
    let r1 = run(o1);
    lemma_run_push(o1, '{');
    let o2 = o1.push('{');
    let r2 = run(o2);
    assert(r2.ok);
    assert(r2.s == r0.s.push(false));
    lemma_run_push(o2, '\n');
    let o3 = o2.push('\n');
    let r3 = run(o3);
    let s3 = r0.s.push(false).update(r0.s.len() as int, true);
    assert(r3.s == s3);
    assert(s3 =~= r0.s.push(true));
    lemma_cnt_push(r0.s, true);
    lemma_run_spaces(o3, 4 * (l0 + 1));
    assert(kst(input, k) == ks0.push('{'));
    lemma_braces_push(ks0, r0.s, '{', true);
    lemma_proj_push(ks0, r0.s, '(', '{', true);
    lemma_proj_push(ks0, r0.s, '<', '{', true);
}

pub proof fn lemma_arm_close_brace(input: Seq<char>, k: int, o0: Seq<char>, l0: int, tl0: Seq<Scope>, al0: Seq<Scope>)
    requires arm_pre(input, k, o0, l0, tl0, al0, '}')
    ensures ind_inv(input, k, (o0.push('\n') + spaces(4 * (l0 - 1))).push('}'), l0 - 1, tl0, al0)
{
    let r0 = run(o0);
    let ks0 = kst(input, k - 1);
    assert(ks0.len() > 0 && ks0.last() == '{');
    assert(r0.s.last());
    assert(!r0.lo);
    lemma_cnt_bounds(r0.s);
    lemma_cnt_drop_last(r0.s);
    lemma_cnt_bounds(r0.s.drop_last());
    lemma_run_push(o0, '\n');
    let o1 = o0.push('\n');
    lemma_run_spaces(o1, 4 * (l0 - 1));
    let o2 = o1 + spaces(4 * (l0 - 1));
    lemma_run_push(o2, '}');
    assert(kst(input, k) == ks0.drop_last());
    lemma_braces_pop(ks0, r0.s);
    lemma_proj_pop(ks0, r0.s, '(');
    lemma_proj_pop(ks0, r0.s, '<');
}

pub proof fn lemma_arm_open_paren_small(input: Seq<char>, k: int, o0: Seq<char>, l0: int, tl0: Seq<Scope>, al0: Seq<Scope>)
    requires arm_pre(input, k, o0, l0, tl0, al0, '(')
    ensures ind_inv(input, k, o0.push('('), l0, tl0.push(Scope::Small), al0)
{
    let r0 = run(o0);
    let ks0 = kst(input, k - 1);
    lemma_cnt_bounds(r0.s);
    lemma_run_push(o0, '(');
    lemma_cnt_push(r0.s, false);
    assert(kst(input, k) == ks0.push('('));
    lemma_braces_push(ks0, r0.s, '(', false);
    lemma_proj_push(ks0, r0.s, '(', '(', false);
    lemma_proj_push(ks0, r0.s, '<', '(', false);
    lemma_mirrors_push(tl0, proj(ks0, r0.s, '('), Scope::Small, false);
}

pub proof fn lemma_arm_open_paren_big(input: Seq<char>, k: int, o0: Seq<char>, l0: int, tl0: Seq<Scope>, al0: Seq<Scope>)
    requires arm_pre(input, k, o0, l0, tl0, al0, '(')
    ensures ind_inv(input, k, o0.push('(').push('\n') + spaces(4 * (l0 + 1)), l0 + 1, tl0.push(Scope::Big), al0)
{
    let r0 = run(o0);
    let ks0 = kst(input, k - 1);
    lemma_cnt_bounds(r0.s);
    lemma_run_push(o0, '(');
    let o1 = o0.push('(');
    lemma_run_push(o1, '\n');
    let o2 = o1.push('\n');
    let s2 = r0.s.push(false).update(r0.s.len() as int, true);
    assert(run(o2).s == s2);
    assert(s2 =~= r0.s.push(true));
    lemma_cnt_push(r0.s, true);
    lemma_run_spaces(o2, 4 * (l0 + 1));
    assert(kst(input, k) == ks0.push('('));
    lemma_braces_push(ks0, r0.s, '(', true);
    lemma_proj_push(ks0, r0.s, '(', '(', true);
    lemma_proj_push(ks0, r0.s, '<', '(', true);
    lemma_mirrors_push(tl0, proj(ks0, r0.s, '('), Scope::Big, true);
}

pub proof fn lemma_arm_close_paren(input: Seq<char>, k: int, o0: Seq<char>, l0: int, tl0: Seq<Scope>, al0: Seq<Scope>)
    requires arm_pre(input, k, o0, l0, tl0, al0, ')')
    ensures
        tl0.len() > 0,
        tl0.last() is Big ==> ind_inv(input, k, (o0.push('\n') + spaces(4 * (l0 - 1))).push(')'), l0 - 1, tl0.drop_last(), al0),
        !(tl0.last() is Big) ==> ind_inv(input, k, o0.push(')'), l0, tl0.drop_last(), al0),
{
    let r0 = run(o0);
    let ks0 = kst(input, k - 1);
    assert(ks0.len() > 0 && ks0.last() == '(');
    lemma_cnt_bounds(r0.s);
    lemma_cnt_drop_last(r0.s);
    lemma_cnt_bounds(r0.s.drop_last());
    lemma_proj_pop(ks0, r0.s, '(');
    lemma_proj_pop(ks0, r0.s, '<');
    lemma_mirrors_pop(tl0, proj(ks0, r0.s, '('));
    assert(kst(input, k) == ks0.drop_last());
    lemma_braces_pop(ks0, r0.s);
    if tl0.last() is Big {
        assert(r0.s.last());
        assert(!r0.lo);
        lemma_run_push(o0, '\n');
        let o1 = o0.push('\n');
        lemma_run_spaces(o1, 4 * (l0 - 1));
        let o2 = o1 + spaces(4 * (l0 - 1));
        lemma_run_push(o2, ')');
    } else {
        assert(!r0.s.last());
        lemma_run_push(o0, ')');
    }
}

pub proof fn lemma_arm_open_angle_small(input: Seq<char>, k: int, o0: Seq<char>, l0: int, tl0: Seq<Scope>, al0: Seq<Scope>)
    requires arm_pre(input, k, o0, l0, tl0, al0, '<')
    ensures ind_inv(input, k, o0.push('<'), l0, tl0, al0.push(Scope::Small))
{
    let r0 = run(o0);
    let ks0 = kst(input, k - 1);
    lemma_cnt_bounds(r0.s);
    lemma_run_push(o0, '<');
    lemma_cnt_push(r0.s, false);
    assert(kst(input, k) == ks0.push('<'));
    lemma_braces_push(ks0, r0.s, '<', false);
    lemma_proj_push(ks0, r0.s, '(', '<', false);
    lemma_proj_push(ks0, r0.s, '<', '<', false);
    lemma_mirrors_push(al0, proj(ks0, r0.s, '<'), Scope::Small, false);
}

pub proof fn lemma_arm_open_angle_big(input: Seq<char>, k: int, o0: Seq<char>, l0: int, tl0: Seq<Scope>, al0: Seq<Scope>)
    requires arm_pre(input, k, o0, l0, tl0, al0, '<')
    ensures ind_inv(input, k, o0.push('<').push('\n') + spaces(4 * (l0 + 1)), l0 + 1, tl0, al0.push(Scope::Big))
{
    let r0 = run(o0);
    let ks0 = kst(input, k - 1);
    lemma_cnt_bounds(r0.s);
    lemma_run_push(o0, '<');
    let o1 = o0.push('<');
    lemma_run_push(o1, '\n');
    let o2 = o1.push('\n');
    let s2 = r0.s.push(false).update(r0.s.len() as int, true);
    assert(run(o2).s == s2);
    assert(s2 =~= r0.s.push(true));
    lemma_cnt_push(r0.s, true);
    lemma_run_spaces(o2, 4 * (l0 + 1));
    assert(kst(input, k) == ks0.push('<'));
    lemma_braces_push(ks0, r0.s, '<', true);
    lemma_proj_push(ks0, r0.s, '(', '<', true);
    lemma_proj_push(ks0, r0.s, '<', '<', true);
    lemma_mirrors_push(al0, proj(ks0, r0.s, '<'), Scope::Big, true);
}

pub proof fn lemma_arm_close_angle(input: Seq<char>, k: int, o0: Seq<char>, l0: int, tl0: Seq<Scope>, al0: Seq<Scope>)
    requires arm_pre(input, k, o0, l0, tl0, al0, '>')
    ensures
        al0.len() > 0,
        al0.last() is Big ==> ind_inv(input, k, (o0.push('\n') + spaces(4 * (l0 - 1))).push('>'), l0 - 1, tl0, al0.drop_last()),
        !(al0.last() is Big) ==> ind_inv(input, k, o0.push('>'), l0, tl0, al0.drop_last()),
{
    let r0 = run(o0);
    let ks0 = kst(input, k - 1);
    assert(ks0.len() > 0 && ks0.last() == '<');
    lemma_cnt_bounds(r0.s);
    lemma_cnt_drop_last(r0.s);
    lemma_cnt_bounds(r0.s.drop_last());
    lemma_proj_pop(ks0, r0.s, '(');
    lemma_proj_pop(ks0, r0.s, '<');
    lemma_mirrors_pop(al0, proj(ks0, r0.s, '<'));
    assert(kst(input, k) == ks0.drop_last());
    lemma_braces_pop(ks0, r0.s);
    if al0.last() is Big {
        assert(r0.s.last());
        assert(!r0.lo);
        lemma_run_push(o0, '\n');
        let o1 = o0.push('\n');
        lemma_run_spaces(o1, 4 * (l0 - 1));
        let o2 = o1 + spaces(4 * (l0 - 1));
        lemma_run_push(o2, '>');
    } else {
        assert(!r0.s.last());
        lemma_run_push(o0, '>');
    }
}

pub broadcast group group_indent {
    lemma_cnt_bounds,
    lemma_run_push,
    lemma_run_spaces,
    lemma_cnt_push,
    lemma_cnt_set_last,
    lemma_proj_push,
    lemma_proj_pop,
    lemma_proj_set_last,
}
