// ===== U-FMT spec vocabulary and lemmas (verified by Verus; no assume/admit) =====
pub open spec fn is_ins(c: char) -> bool { c == ' ' || c == '\n' }

pub open spec fn ins(o: Seq<char>, i: Seq<char>) -> bool
    decreases o.len()
{
    if o.len() == 0 { i.len() == 0 }
    else {
        (is_ins(o.last()) && ins(o.drop_last(), i))
        || (i.len() > 0 && o.last() == i.last() && ins(o.drop_last(), i.drop_last()))
    }
}

pub open spec fn spaces(n: int) -> Seq<char>
    decreases n
{
    if n <= 0 { Seq::empty() } else { spaces(n - 1).push(' ') }
}

pub broadcast proof fn lemma_ins_push_ws(o: Seq<char>, i: Seq<char>, c: char)
    requires ins(o, i), is_ins(c)
    ensures #![trigger ins(o, i), o.push(c)] ins(o.push(c), i)
{
    assert(o.push(c).drop_last() =~= o);
}

pub broadcast proof fn lemma_ins_push_same(o: Seq<char>, i: Seq<char>, c: char)
    requires ins(o, i)
    ensures #![trigger ins(o, i), o.push(c)] ins(o.push(c), i.push(c))
{
    assert(o.push(c).drop_last() =~= o);
    assert(i.push(c).drop_last() =~= i);
}

pub broadcast proof fn lemma_ins_spaces(o: Seq<char>, i: Seq<char>, n: int)
    requires ins(o, i)
    ensures #![trigger ins(o, i), o + spaces(n)] ins(o + spaces(n), i)
    decreases n
{
    if n <= 0 {
        assert(o + spaces(n) =~= o);
    } else {
        lemma_ins_spaces(o, i, n - 1);
        lemma_ins_push_ws(o + spaces(n - 1), i, ' ');
        assert(o + spaces(n) =~= (o + spaces(n - 1)).push(' '));
    }
}

pub proof fn lemma_spaces_add(a: int, b: int)
    requires a >= 0, b >= 0
    ensures spaces(a) + spaces(b) =~= spaces(a + b)
    decreases b
{
    if b > 0 {
        lemma_spaces_add(a, b - 1);
        assert(spaces(a) + spaces(b) =~= (spaces(a) + spaces(b - 1)).push(' '));
    }
}

pub proof fn lemma_four_spaces()
    ensures "    "@ =~= spaces(4)
{
    reveal_strlit("    ");
    reveal_with_fuel(spaces, 5);
}

pub open spec fn strip(s: Seq<char>, w: spec_fn(char) -> bool) -> Seq<char>
    decreases s.len()
{
    if s.len() == 0 { Seq::empty() }
    else if w(s.last()) { strip(s.drop_last(), w) }
    else { strip(s.drop_last(), w).push(s.last()) }
}

pub proof fn lemma_ins_strip(o: Seq<char>, i: Seq<char>, w: spec_fn(char) -> bool)
    requires ins(o, i), w(' '), w('\n')
    ensures strip(o, w) == strip(i, w)
    decreases o.len()
{
    if o.len() == 0 {
    } else if is_ins(o.last()) && ins(o.drop_last(), i) {
        lemma_ins_strip(o.drop_last(), i, w);
    } else {
        lemma_ins_strip(o.drop_last(), i.drop_last(), w);
    }
}

