// ===== U-FMT spec vocabulary and lemmas (verified by Verus; no assume/admit) =====
pub open spec fn is_ins(c: char) -> bool { c == ' ' || c == '\n' }

pub open spec fn ins(o: Seq<char>, i: Seq<char>) -> bool
    decreases o.len()
{
    if o.len() == 0 { i.len() == 0 }
    else {
        (is_ins(o.last()) && ins(o.drop_last(), i))
        || (i.len() > 0 && o.last() == i.last() && ins(o.drop_last(), i.drop_last()))
    }
}

pub open spec fn spaces(n: int) -> Seq<char>
    decreases n
{
    if n <= 0 { Seq::empty() } else { spaces(n - 1).push(' ') }
}

pub broadcast proof fn lemma_ins_push_ws(o: Seq<char>, i: Seq<char>, c: char)
    requires ins(o, i), is_ins(c)
    ensures #![trigger ins(o, i), o.push(c)] ins(o.push(c), i)
{
    assert(o.push(c).drop_last() =~= o);
}

pub broadcast proof fn lemma_ins_push_same(o: Seq<char>, i: Seq<char>, c: char)
    requires ins(o, i)
    ensures #![trigger ins(o, i), o.push(c)] ins(o.push(c), i.push(c))
{
    assert(o.push(c).drop_last() =~= o);
    assert(i.push(c).drop_last() =~= i);
}

pub broadcast proof fn lemma_ins_spaces(o: Seq<char>, i: Seq<char>, n: int)
    requires ins(o, i)
    ensures #![trigger ins(o, i), o + spaces(n)] ins(o + spaces(n), i)
    decreases n
{
    if n <= 0 {
        assert(o + spaces(n) =~= o);
    } else {
        lemma_ins_spaces(o, i, n - 1);
        lemma_ins_push_ws(o + spaces(n - 1), i, ' ');
        assert(o + spaces(n) =~= (o + spaces(n - 1)).push(' '));
    }
}

pub proof fn lemma_spaces_add(a: int, b: int)
    requires a >= 0, b >= 0
    ensures spaces(a) + spaces(b) =~= spaces(a + b)
    decreases b
{
    if b > 0 {
        lemma_spaces_add(a, b - 1);
        assert(spaces(a) + spaces(b) =~= (spaces(a) + spaces(b - 1)).push(' '));
    }
}

pub proof fn lemma_four_spaces()
    ensures "    "@ =~= spaces(4)
{
    reveal_strlit("    ");
    reveal_with_fuel(spaces, 5);
}

pub open spec fn strip(s: Seq<char>, w: spec_fn(char) -> bool) -> Seq<char>
    decreases s.len()
{
    if s.len() == 0 { Seq::empty() }
    else if w(s.last()) { strip(s.drop_last(), w) }
    else { strip(s.drop_last(), w).push(s.last()) }
}

pub proof fn lemma_ins_strip(o: Seq<char>, i: Seq<char>, w: spec_fn(char) -> bool)
    requires ins(o, i), w(' '), w('\n')
    ensures strip(o, w) == strip(i, w)
    decreases o.len()
{
    if o.len() == 0 {
    } else if is_ins(o.last()) && ins(o.drop_last(), i) {
        lemma_ins_strip(o.drop_last(), i, w);
    } else {
        lemma_ins_strip(o.drop_last(), i.drop_last(), w);
    }
}


// =============================================================================================
// C15 clause 2: indentation.  The postcondition is a predicate over the OUTPUT TEXT ALONE:
// a checker automaton reads the text left to right, keeps the stack of open scopes with a flag
// "broken over several lines" (a scope is broken iff its opener is directly followed by a line
// break), counts the spaces after every line break, and at the first non-space character of the
// line demands   spaces == 4 * (number of open broken scopes)
// where a line that starts with the closer of a broken scope is written at its opener's depth,
// and an opening brace may keep its one separating space.  No look-ahead, so run(o + w) is
// run(o) continued over w.
// =============================================================================================
pub open spec fn is_opener(c: char) -> bool { c == '{' || c == '(' || c == '<' }
pub open spec fn is_closer(c: char) -> bool { c == '}' || c == ')' || c == '>' }
pub open spec fn partner(o: char) -> char { if o == '{' { '}' } else if o == '(' { ')' } else if o == '<' { '>' } else { '?' } }

pub open spec fn cnt(s: Seq<bool>) -> int
    decreases s.len()
{
    if s.len() == 0 { 0 } else { cnt(s.drop_last()) + if s.last() { 1int } else { 0int } }
}

pub struct RS {
    pub s: Seq<bool>,   // open scopes, innermost last; true = broken over several lines
    pub ind: int,       // -1: inside a line; n >= 0: n spaces seen since the last line break
    pub lo: bool,       // the previous character was an opener
    pub ok: bool,       // every completed indentation run so far was correct
}

pub open spec fn rs_init() -> RS { RS { s: Seq::empty(), ind: -1, lo: false, ok: true } }

pub open spec fn step(r: RS, c: char) -> RS {
    if c == ' ' {
        RS { s: r.s, ind: if r.ind >= 0 { r.ind + 1 } else { r.ind }, lo: false, ok: r.ok }
    } else {
        let top = r.s.len() > 0 && r.s.last();
        let d = cnt(r.s) - if is_closer(c) && top { 1int } else { 0int };
        let good = r.ind < 0 || r.ind == 4 * d || (c == '{' && r.ind == 4 * d + 1);
        let ok = r.ok && good;
        if c == '\n' {
            RS { s: if r.lo && r.s.len() > 0 { r.s.update(r.s.len() - 1, true) } else { r.s }, ind: 0, lo: false, ok: ok }
        } else if is_opener(c) {
            RS { s: r.s.push(false), ind: -1, lo: true, ok: ok }
        } else if is_closer(c) {
            RS { s: if r.s.len() > 0 { r.s.drop_last() } else { r.s }, ind: -1, lo: false, ok: ok }
        } else {
            RS { s: r.s, ind: -1, lo: false, ok: ok }
        }
    }
}

pub open spec fn run(o: Seq<char>) -> RS
    decreases o.len()
{
    if o.len() == 0 { rs_init() } else { step(run(o.drop_last()), o.last()) }
}

/// the clause-2 postcondition: every indentation run is correct, all scopes are closed, and a
/// trailing indentation run (text ending in a line break) is at depth zero
pub open spec fn indentation_ok(o: Seq<char>) -> bool {
    let r = run(o);
    r.ok && r.s.len() == 0 && (r.ind == -1 || r.ind == 0)
}

// ---- input side: proper nesting -----------------------------------------------------------------
pub open spec fn kst(s: Seq<char>, k: int) -> Seq<char>
    decreases k
{
    if k <= 0 { Seq::empty() } else {
        let p = kst(s, k - 1);
        let c = s[k - 1];
        if is_opener(c) { p.push(c) } else if is_closer(c) && p.len() > 0 { p.drop_last() } else { p }
    }
}

pub open spec fn nested_upto(s: Seq<char>, k: int) -> bool
    decreases k
{
    if k <= 0 { true } else {
        nested_upto(s, k - 1)
        && (is_closer(s[k - 1]) ==> kst(s, k - 1).len() > 0 && partner(kst(s, k - 1).last()) == s[k - 1])
    }
}

pub open spec fn nested(s: Seq<char>) -> bool { nested_upto(s, s.len() as int) && kst(s, s.len() as int).len() == 0 }

pub open spec fn ws_free(s: Seq<char>) -> bool { forall|i: int| 0 <= i < s.len() ==> s[i] != ' ' && s[i] != '\n' }

pub open spec fn guard(s: Seq<char>) -> bool { nested(s) && ws_free(s) }

pub proof fn lemma_nested_prefix(s: Seq<char>, n: int, m: int)
    requires nested_upto(s, n), 0 <= m <= n
    ensures nested_upto(s, m)
    decreases n - m
{
    if m < n { lemma_nested_prefix(s, n, m + 1); }
}

// ---- linking the real state to the checker state ---------------------------------------------------
/// the flags of the scopes of kind K, innermost last
pub open spec fn proj(ks: Seq<char>, fs: Seq<bool>, kind: char) -> Seq<bool>
    decreases ks.len()
{
    if ks.len() == 0 || fs.len() == 0 { Seq::empty() } else {
        let p = proj(ks.drop_last(), fs.drop_last(), kind);
        if ks.last() == kind { p.push(fs.last()) } else { p }
    }
}

pub open spec fn braces_broken(ks: Seq<char>, fs: Seq<bool>) -> bool {
    forall|i: int| 0 <= i < ks.len() && i < fs.len() && ks[i] == '{' ==> fs[i]
}

pub open spec fn mirrors(v: Seq<Scope>, p: Seq<bool>) -> bool {
    v.len() == p.len() && forall|i: int| 0 <= i < v.len() ==> ((#[trigger] v[i]) is Big) == p[i]
}

/// the loop invariant of clause 2 (k characters consumed)
pub open spec fn ind_inv(input: Seq<char>, k: int, output: Seq<char>, indent_level: int, tuple_level: Seq<Scope>, angle_level: Seq<Scope>) -> bool {
    let r = run(output);
    let ks = kst(input, k);
    &&& r.ok
    &&& r.s.len() == ks.len()
    &&& cnt(r.s) == indent_level
    &&& (r.ind == -1 || (r.ind == 4 * indent_level && !r.lo))
    &&& (r.lo ==> r.s.len() > 0 && !r.s.last() && ks.last() != '{')
    &&& braces_broken(ks, r.s)
    &&& mirrors(tuple_level, proj(ks, r.s, '('))
    &&& mirrors(angle_level, proj(ks, r.s, '<'))
}

pub broadcast proof fn lemma_run_push(o: Seq<char>, c: char)
    ensures #[trigger] run(o.push(c)) == step(run(o), c)
{
    assert(o.push(c).drop_last() =~= o);
}

pub open spec fn add_spaces(r: RS, n: int) -> RS {
    if n <= 0 { r } else { RS { s: r.s, ind: if r.ind >= 0 { r.ind + n } else { r.ind }, lo: false, ok: r.ok } }
}

pub broadcast proof fn lemma_run_spaces(o: Seq<char>, n: int)
    ensures #[trigger] run(o + spaces(n)) == add_spaces(run(o), n)
    decreases n
{
    if n <= 0 {
        assert(o + spaces(n) =~= o);
    } else {
        lemma_run_spaces(o, n - 1);
        assert(o + spaces(n) =~= (o + spaces(n - 1)).push(' '));
        lemma_run_push(o + spaces(n - 1), ' ');
    }
}

pub broadcast proof fn lemma_cnt_bounds(s: Seq<bool>)
    ensures 0 <= #[trigger] cnt(s) <= s.len()
    decreases s.len()
{
    if s.len() > 0 { lemma_cnt_bounds(s.drop_last()); }
}

pub broadcast proof fn lemma_cnt_push(s: Seq<bool>, b: bool)
    ensures #[trigger] cnt(s.push(b)) == cnt(s) + if b { 1int } else { 0int }
{
    assert(s.push(b).drop_last() =~= s);
}

pub broadcast proof fn lemma_cnt_set_last(s: Seq<bool>)
    requires s.len() > 0
    ensures #[trigger] cnt(s.update(s.len() - 1, true)) == cnt(s) + if s.last() { 0int } else { 1int }
{
    assert(s.update(s.len() - 1, true).drop_last() =~= s.drop_last());
}

pub broadcast proof fn lemma_proj_push(ks: Seq<char>, fs: Seq<bool>, kind: char, c: char, b: bool)
    requires ks.len() == fs.len()
    ensures #[trigger] proj(ks.push(c), fs.push(b), kind) == if c == kind { proj(ks, fs, kind).push(b) } else { proj(ks, fs, kind) }
{
    assert(ks.push(c).drop_last() =~= ks);
    assert(fs.push(b).drop_last() =~= fs);
}

pub broadcast proof fn lemma_proj_pop(ks: Seq<char>, fs: Seq<bool>, kind: char)
    requires ks.len() == fs.len(), ks.len() > 0
    ensures #[trigger] proj(ks.drop_last(), fs.drop_last(), kind) == if ks.last() == kind { proj(ks, fs, kind).drop_last() } else { proj(ks, fs, kind) },
            ks.last() == kind ==> proj(ks, fs, kind).len() > 0 && proj(ks, fs, kind).last() == fs.last(),
{
    let p = proj(ks.drop_last(), fs.drop_last(), kind);
    if ks.last() == kind { assert(p.push(fs.last()).drop_last() =~= p); }
}

pub broadcast proof fn lemma_proj_set_last(ks: Seq<char>, fs: Seq<bool>, kind: char)
    requires ks.len() == fs.len(), ks.len() > 0
    ensures #[trigger] proj(ks, fs.update(fs.len() - 1, true), kind)
        == if ks.last() == kind { proj(ks, fs, kind).update(proj(ks, fs, kind).len() - 1, true) } else { proj(ks, fs, kind) }
{
    let fs2 = fs.update(fs.len() - 1, true);
    assert(fs2.drop_last() =~= fs.drop_last());
    let p = proj(ks.drop_last(), fs.drop_last(), kind);
    if ks.last() == kind {
        assert(p.push(true) =~= p.push(fs.last()).update(p.len() as int, true));
    }
}

pub broadcast group group_indent {
    lemma_cnt_bounds,
    lemma_run_push,
    lemma_run_spaces,
    lemma_cnt_push,
    lemma_cnt_set_last,
    lemma_proj_push,
    lemma_proj_pop,
    lemma_proj_set_last,
}
