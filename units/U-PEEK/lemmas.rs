// ===== U-PEEK: peekmore 1.3.0's PeekMoreIterator instantiated at I = Chars, verified from the dependency's source =====
// Representation: `queue` holds the peeked-but-unconsumed items as Options (a prefix of Some, then None once the
// underlying iterator is exhausted), `iterator` the rest.  rest() = the Somes of the queue followed by the iterator's rest.
pub open spec fn qsome(q: Seq<Option<char>>) -> Seq<char>
    decreases q.len()
{
    if q.len() == 0 { Seq::empty() }
    else if q.last() is Some { qsome(q.drop_last()).push(q.last()->0) }
    else { qsome(q.drop_last()) }
}

pub proof fn lemma_qsome_push(q: Seq<Option<char>>, x: Option<char>)
    ensures qsome(q.push(x)) == if x is Some { qsome(q).push(x->0) } else { qsome(q) }
{
    assert(q.push(x).drop_last() =~= q);
}


pub open spec fn qwf(q: Seq<Option<char>>) -> bool {
    forall|i: int, j: int| 0 <= i < j < q.len() && q[j] is Some ==> q[i] is Some
}

/// in a Some-prefix queue the i-th entry is the i-th Some, and entries past the Somes are None
pub proof fn lemma_qsome_index(q: Seq<Option<char>>)
    requires qwf(q)
    ensures
        qsome(q).len() <= q.len(),
        forall|i: int| 0 <= i < q.len() ==> #[trigger] q[i] == (if i < qsome(q).len() { Some(qsome(q)[i]) } else { None::<char> }),
    decreases q.len()
{
    if q.len() > 0 {
        let p = q.drop_last();
        assert(qwf(p));
        lemma_qsome_index(p);
        if q.last() is Some {
            // then every earlier entry is Some, so qsome(p) has length p.len()
            assert forall|i: int| 0 <= i < p.len() implies p[i] is Some by { assert(q[i] is Some); }
            assert(qsome(p).len() == p.len()) by {
                if qsome(p).len() < p.len() { assert(p[qsome(p).len() as int] == None::<char>); }
            }
        }
        assert forall|i: int| 0 <= i < q.len() implies #[trigger] q[i] == (if i < qsome(q).len() { Some(qsome(q)[i]) } else { None::<char> }) by {
            if i < p.len() {
                assert(q[i] == p[i]);
                if q.last() is Some { assert(qsome(q)[i] == qsome(p)[i]); }
            }
        }
    }
}

pub proof fn lemma_qsome_remove0(q: Seq<Option<char>>)
    requires qwf(q), q.len() > 0
    ensures
        qwf(q.remove(0)),
        q[0] is Some ==> qsome(q).len() > 0 && qsome(q)[0] == q[0]->0 && qsome(q.remove(0)) == qsome(q).skip(1),
        q[0] is None ==> qsome(q).len() == 0 && qsome(q.remove(0)).len() == 0,
{
    lemma_qsome_index(q);
    let r = q.remove(0);
    assert forall|i: int, j: int| 0 <= i < j < r.len() && r[j] is Some implies r[i] is Some by {
        assert(r[j] == q[j + 1] && r[i] == q[i + 1]);
    }
    lemma_qsome_index(r);
    if q[0] is Some {
        // lengths: number of Somes drops by one; elementwise equal
        assert(qsome(r).len() == qsome(q).len() - 1) by {
            let n = qsome(q).len() as int;
            // q[n-1] is Some, q[n] (if any) is None
            if qsome(r).len() as int > n - 1 { assert(r[n - 1] == q[n]); }
            if (qsome(r).len() as int) < n - 1 { assert(r[qsome(r).len() as int] == q[qsome(r).len() as int + 1]); }
        }
        assert(qsome(r) =~= qsome(q).skip(1)) by {
            assert forall|i: int| 0 <= i < qsome(r).len() implies qsome(r)[i] == qsome(q).skip(1)[i] by {
                assert(r[i] == q[i + 1]);
            }
        }
    } else {
        if qsome(r).len() > 0 { assert(r[0] == q[1]); }
    }
}


impl PeekChars {
    pub open spec fn wf(&self) -> bool {
        &&& qwf(self.queue@)
        &&& ((exists|i: int| 0 <= i < self.queue@.len() && self.queue@[i] is None) ==> self.iterator.rest().len() == 0)
    }
    pub open spec fn rest(&self) -> Seq<char> { qsome(self.queue@) + self.iterator.rest() }
    pub open spec fn cur(&self) -> nat { self.cursor as nat }
}
