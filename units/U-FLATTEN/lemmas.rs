// ===== U-FLATTEN spec vocabulary =====
pub open spec fn ids_ok(types: &PortableRegistry) -> bool {
    types.types@.len() <= 0x1_0000_0000 && forall|i: int| 0 <= i < types.types@.len() ==> (#[trigger] types.types@[i]).id == i
}
/// pointwise membership in a u32-keyed / path-keyed map of Derives
pub open spec fn ad(a: Map<u32, Derives>, id: u32, d: SynPath) -> bool { a.contains_key(id) && a[id].derives@.contains(d) }
pub open spec fn aa(a: Map<u32, Derives>, id: u32, x: SynAttribute) -> bool { a.contains_key(id) && a[id].attributes@.contains(x) }
pub open spec fn sd(s: Map<SynTypePath, Derives>, p: SynTypePath, d: SynPath) -> bool { s.contains_key(p) && s[p].derives@.contains(d) }
pub open spec fn sa(s: Map<SynTypePath, Derives>, p: SynTypePath, x: SynAttribute) -> bool { s.contains_key(p) && s[p].attributes@.contains(x) }

/// type i is a ROOT: it has a syn path, recursive derives are registered for that path, and it is the first type with that path
pub open spec fn root_at(types: &PortableRegistry, m: Map<u32, SynTypePath>, rec: Map<SynTypePath, Derives>, i: int) -> bool {
    &&& 0 <= i < types.types@.len()
    &&& m.contains_key(types.types@[i].id)
    &&& rec.contains_key(m[types.types@[i].id])
    &&& forall|j: int| 0 <= j < i ==> !(m.contains_key((#[trigger] types.types@[j]).id) && m[types.types@[j].id] == m[types.types@[i].id])
}
/// type i has a syn path for which recursive derives are registered (first with that path or not)
pub open spec fn root_any(types: &PortableRegistry, m: Map<u32, SynTypePath>, rec: Map<SynTypePath, Derives>, i: int) -> bool {
    &&& 0 <= i < types.types@.len()
    &&& m.contains_key(types.types@[i].id)
    &&& rec.contains_key(m[types.types@[i].id])
}
pub open spec fn rd(types: &PortableRegistry, m: Map<u32, SynTypePath>, rec: Map<SynTypePath, Derives>, i: int) -> Derives { rec[m[types.types@[i].id]] }

/// id MAY get derive d: it is reachable along permitted edges from SOME type (among the first k) whose path has recursive derives;
/// id MUST get it: it is reachable along required edges from the FIRST type with such a path.  (Where several registry types
/// share a path -- instantiations of one generic definition -- the property does not say which of them counts as the root;
/// the contract leaves that open: treating only the first, or all of them, as roots both satisfy it.)
pub open spec fn may_d(types: &PortableRegistry, m: Map<u32, SynTypePath>, rec: Map<SynTypePath, Derives>, k: int, id: u32, d: SynPath) -> bool {
    exists|i: int| 0 <= i < k && #[trigger] root_any(types, m, rec, i) && reachp(types, types.types@[i].id, id) && rd(types, m, rec, i).derives@.contains(d)
}
pub open spec fn must_d(types: &PortableRegistry, m: Map<u32, SynTypePath>, rec: Map<SynTypePath, Derives>, k: int, id: u32, d: SynPath) -> bool {
    exists|i: int| 0 <= i < k && #[trigger] root_at(types, m, rec, i) && reach(types, types.types@[i].id, id) && rd(types, m, rec, i).derives@.contains(d)
}
pub open spec fn may_a(types: &PortableRegistry, m: Map<u32, SynTypePath>, rec: Map<SynTypePath, Derives>, k: int, id: u32, x: SynAttribute) -> bool {
    exists|i: int| 0 <= i < k && #[trigger] root_any(types, m, rec, i) && reachp(types, types.types@[i].id, id) && rd(types, m, rec, i).attributes@.contains(x)
}
pub open spec fn must_a(types: &PortableRegistry, m: Map<u32, SynTypePath>, rec: Map<SynTypePath, Derives>, k: int, id: u32, x: SynAttribute) -> bool {
    exists|i: int| 0 <= i < k && #[trigger] root_at(types, m, rec, i) && reach(types, types.types@[i].id, id) && rd(types, m, rec, i).attributes@.contains(x)
}

/// the id-keyed accumulation after the first k types: everything that MUST be there is, nothing that MAY not be there is
pub open spec fn acc_ok(types: &PortableRegistry, m: Map<u32, SynTypePath>, rec: Map<SynTypePath, Derives>, k: int, a: Map<u32, Derives>) -> bool {
    &&& forall|id: u32, d: SynPath| #[trigger] must_d(types, m, rec, k, id, d) ==> ad(a, id, d)
    &&& forall|id: u32, d: SynPath| #[trigger] ad(a, id, d) ==> may_d(types, m, rec, k, id, d)
    &&& forall|id: u32, x: SynAttribute| #[trigger] must_a(types, m, rec, k, id, x) ==> aa(a, id, x)
    &&& forall|id: u32, x: SynAttribute| #[trigger] aa(a, id, x) ==> may_a(types, m, rec, k, id, x)
}

/// the contract of the whole function, pointwise: what is in the flattened specific map
pub open spec fn flat_ok(types: &PortableRegistry, m: Map<u32, SynTypePath>, rec: Map<SynTypePath, Derives>, s0: Map<SynTypePath, Derives>, s1: Map<SynTypePath, Derives>) -> bool {
    let n = types.types@.len() as int;
    &&& forall|p: SynTypePath, d: SynPath| #[trigger] sd(s0, p, d) ==> sd(s1, p, d)
    &&& forall|id: u32, d: SynPath| m.contains_key(id) && #[trigger] must_d(types, m, rec, n, id, d) ==> sd(s1, m[id], d)
    &&& forall|p: SynTypePath, d: SynPath| #[trigger] sd(s1, p, d) ==> sd(s0, p, d) || exists|id: u32| m.contains_key(id) && m[id] == p && #[trigger] may_d(types, m, rec, n, id, d)
    &&& forall|p: SynTypePath, x: SynAttribute| #[trigger] sa(s0, p, x) ==> sa(s1, p, x)
    &&& forall|id: u32, x: SynAttribute| m.contains_key(id) && #[trigger] must_a(types, m, rec, n, id, x) ==> sa(s1, m[id], x)
    &&& forall|p: SynTypePath, x: SynAttribute| #[trigger] sa(s1, p, x) ==> sa(s0, p, x) || exists|id: u32| m.contains_key(id) && m[id] == p && #[trigger] may_a(types, m, rec, n, id, x)
}
// ===== U-FLATTEN lemmas (no assume/admit) =====
pub open spec fn seen(types: &PortableRegistry, m: Map<u32, SynTypePath>, k: int, q: SynTypePath) -> bool {
    exists|j: int| 0 <= j < k && m.contains_key((#[trigger] types.types@[j]).id) && m[types.types@[j].id] == q
}
/// the recursive map while the first loop runs: the entries of the paths seen so far have been taken out
pub open spec fn rec_inv(types: &PortableRegistry, m: Map<u32, SynTypePath>, r0: Map<SynTypePath, Derives>, rc: Map<SynTypePath, Derives>, k: int) -> bool {
    forall|q: SynTypePath| (#[trigger] rc.contains_key(q)) == (r0.contains_key(q) && !seen(types, m, k, q)) && (rc.contains_key(q) ==> rc[q] == r0[q])
}
pub open spec fn in_prefix(u: Seq<u32>, n: int, id: u32) -> bool { exists|j: int| 0 <= j < n && #[trigger] u[j] == id }

/// effect of `map.entry(id).or_default().extend_from(x)` on pointwise membership
pub open spec fn ext_id(a0: Map<u32, Derives>, a1: Map<u32, Derives>, id: u32, x: Derives) -> bool {
    &&& forall|i2: u32, d: SynPath| #[trigger] ad(a1, i2, d) == (ad(a0, i2, d) || (i2 == id && x.derives@.contains(d)))
    &&& forall|i2: u32, y: SynAttribute| #[trigger] aa(a1, i2, y) == (aa(a0, i2, y) || (i2 == id && x.attributes@.contains(y)))
}
pub open spec fn ext_path(s0: Map<SynTypePath, Derives>, s1: Map<SynTypePath, Derives>, p: SynTypePath, x: Derives) -> bool {
    &&& forall|p2: SynTypePath, d: SynPath| #[trigger] sd(s1, p2, d) == (sd(s0, p2, d) || (p2 == p && x.derives@.contains(d)))
    &&& forall|p2: SynTypePath, y: SynAttribute| #[trigger] sa(s1, p2, y) == (sa(s0, p2, y) || (p2 == p && x.attributes@.contains(y)))
}
pub open spec fn base_id(a0: Map<u32, Derives>, id: u32) -> Derives { if a0.contains_key(id) { a0[id] } else { default_of::<Derives>() } }
pub open spec fn base_path(s0: Map<SynTypePath, Derives>, p: SynTypePath) -> Derives { if s0.contains_key(p) { s0[p] } else { default_of::<Derives>() } }
pub open spec fn default_empty() -> bool {
    default_of::<Derives>().derives@ == Set::<SynPath>::empty() && default_of::<Derives>().attributes@ == Set::<SynAttribute>::empty()
}

pub proof fn lemma_ext_id(a0: Map<u32, Derives>, a1: Map<u32, Derives>, id: u32, v: Derives, x: Derives)
    requires default_empty(), a1 == a0.insert(id, v),
        v.derives@ == base_id(a0, id).derives@.union(x.derives@), v.attributes@ == base_id(a0, id).attributes@.union(x.attributes@),
    ensures ext_id(a0, a1, id, x)
{
    assert forall|i2: u32, d: SynPath| #[trigger] ad(a1, i2, d) == (ad(a0, i2, d) || (i2 == id && x.derives@.contains(d))) by {
        if i2 != id { assert(a1.contains_key(i2) == a0.contains_key(i2)); if a0.contains_key(i2) { assert(a1[i2] == a0[i2]); } }
    }
    assert forall|i2: u32, y: SynAttribute| #[trigger] aa(a1, i2, y) == (aa(a0, i2, y) || (i2 == id && x.attributes@.contains(y))) by {
        if i2 != id { assert(a1.contains_key(i2) == a0.contains_key(i2)); if a0.contains_key(i2) { assert(a1[i2] == a0[i2]); } }
    }
}
pub proof fn lemma_ext_path(s0: Map<SynTypePath, Derives>, s1: Map<SynTypePath, Derives>, p: SynTypePath, v: Derives, x: Derives)
    requires default_empty(), s1 == s0.insert(p, v),
        v.derives@ == base_path(s0, p).derives@.union(x.derives@), v.attributes@ == base_path(s0, p).attributes@.union(x.attributes@),
    ensures ext_path(s0, s1, p, x)
{
    assert forall|p2: SynTypePath, d: SynPath| #[trigger] sd(s1, p2, d) == (sd(s0, p2, d) || (p2 == p && x.derives@.contains(d))) by {
        if p2 != p { assert(s1.contains_key(p2) == s0.contains_key(p2)); if s0.contains_key(p2) { assert(s1[p2] == s0[p2]); } }
    }
    assert forall|p2: SynTypePath, y: SynAttribute| #[trigger] sa(s1, p2, y) == (sa(s0, p2, y) || (p2 == p && x.attributes@.contains(y))) by {
        if p2 != p { assert(s1.contains_key(p2) == s0.contains_key(p2)); if s0.contains_key(p2) { assert(s1[p2] == s0[p2]); } }
    }
}

// ---- loop 1: a type that is not a root changes nothing ----
pub proof fn lemma_not_root(types: &PortableRegistry, m: Map<u32, SynTypePath>, r0: Map<SynTypePath, Derives>, rc: Map<SynTypePath, Derives>, k: int, a: Map<u32, Derives>)
    requires 0 <= k < types.types@.len(), acc_ok(types, m, r0, k, a), rec_inv(types, m, r0, rc, k),
        !m.contains_key(types.types@[k].id) || !rc.contains_key(m[types.types@[k].id]),
    ensures acc_ok(types, m, r0, k + 1, a), rec_inv(types, m, r0, rc, k + 1), !root_at(types, m, r0, k)
{
    let idk = types.types@[k].id;
    // not a root
    if m.contains_key(idk) {
        let q = m[idk];
        assert(rc.contains_key(q) == (r0.contains_key(q) && !seen(types, m, k, q)));
        if r0.contains_key(q) {
            assert(seen(types, m, k, q));
            let j = choose|j: int| 0 <= j < k && m.contains_key((#[trigger] types.types@[j]).id) && m[types.types@[j].id] == q;
            assert(!root_at(types, m, r0, k));
        }
    }
    assert(!root_at(types, m, r0, k));
    lemma_bounds_step(types, m, r0, k);
    // the recursive map
    assert forall|q: SynTypePath| (#[trigger] rc.contains_key(q)) == (r0.contains_key(q) && !seen(types, m, k + 1, q)) && (rc.contains_key(q) ==> rc[q] == r0[q]) by {
        assert(rc.contains_key(q) == (r0.contains_key(q) && !seen(types, m, k, q)));
        lemma_seen_step(types, m, k, q);
    }
}
/// the same as an implication, callable at the START of the loop body: whichever way the body finds out that type k is
/// not a root (no path, or no recursive registration left for its path) and moves on -- `continue`, a `match`, a nested `if let` --
/// the invariant for k + 1 is already in the context
pub proof fn lemma_not_root_if(types: &PortableRegistry, m: Map<u32, SynTypePath>, r0: Map<SynTypePath, Derives>, rc: Map<SynTypePath, Derives>, k: int, a: Map<u32, Derives>)
    requires 0 <= k < types.types@.len(), acc_ok(types, m, r0, k, a), rec_inv(types, m, r0, rc, k),
    ensures
        (!m.contains_key(types.types@[k].id) || !rc.contains_key(m[types.types@[k].id])) ==> acc_ok(types, m, r0, k + 1, a) && rec_inv(types, m, r0, rc, k + 1),
        m.contains_key(types.types@[k].id) && !rc.contains_key(m[types.types@[k].id]) ==> rc.remove(m[types.types@[k].id]) == rc,
{
    if !m.contains_key(types.types@[k].id) || !rc.contains_key(m[types.types@[k].id]) { lemma_not_root(types, m, r0, rc, k, a); }
    if m.contains_key(types.types@[k].id) && !rc.contains_key(m[types.types@[k].id]) { assert(rc.remove(m[types.types@[k].id]) =~= rc); }
}
pub proof fn lemma_seen_step(types: &PortableRegistry, m: Map<u32, SynTypePath>, k: int, q: SynTypePath)
    requires 0 <= k < types.types@.len()
    ensures seen(types, m, k + 1, q) == (seen(types, m, k, q) || (m.contains_key(types.types@[k].id) && m[types.types@[k].id] == q))
{
    if seen(types, m, k + 1, q) {
        let j = choose|j: int| 0 <= j < k + 1 && m.contains_key((#[trigger] types.types@[j]).id) && m[types.types@[j].id] == q;
        if j < k { assert(seen(types, m, k, q)); }
    }
    if seen(types, m, k, q) {
        let j = choose|j: int| 0 <= j < k && m.contains_key((#[trigger] types.types@[j]).id) && m[types.types@[j].id] == q;
        assert(0 <= j < k + 1);
    }
    if m.contains_key(types.types@[k].id) && m[types.types@[k].id] == q { assert(0 <= k < k + 1 && m.contains_key(types.types@[k].id)); }
}
/// how the may/must bounds move from k to k+1
pub proof fn lemma_bounds_step(types: &PortableRegistry, m: Map<u32, SynTypePath>, r0: Map<SynTypePath, Derives>, k: int)
    requires 0 <= k < types.types@.len()
    ensures
        forall|id: u32, d: SynPath| #[trigger] must_d(types, m, r0, k + 1, id, d) == (must_d(types, m, r0, k, id, d) || (root_at(types, m, r0, k) && reach(types, types.types@[k].id, id) && rd(types, m, r0, k).derives@.contains(d))),
        forall|id: u32, d: SynPath| #[trigger] may_d(types, m, r0, k + 1, id, d) == (may_d(types, m, r0, k, id, d) || (root_any(types, m, r0, k) && reachp(types, types.types@[k].id, id) && rd(types, m, r0, k).derives@.contains(d))),
        forall|id: u32, x: SynAttribute| #[trigger] must_a(types, m, r0, k + 1, id, x) == (must_a(types, m, r0, k, id, x) || (root_at(types, m, r0, k) && reach(types, types.types@[k].id, id) && rd(types, m, r0, k).attributes@.contains(x))),
        forall|id: u32, x: SynAttribute| #[trigger] may_a(types, m, r0, k + 1, id, x) == (may_a(types, m, r0, k, id, x) || (root_any(types, m, r0, k) && reachp(types, types.types@[k].id, id) && rd(types, m, r0, k).attributes@.contains(x))),
{
    assert forall|id: u32, d: SynPath| #[trigger] must_d(types, m, r0, k + 1, id, d) == (must_d(types, m, r0, k, id, d) || (root_at(types, m, r0, k) && reach(types, types.types@[k].id, id) && rd(types, m, r0, k).derives@.contains(d))) by {
        if must_d(types, m, r0, k + 1, id, d) {
            let i = choose|i: int| 0 <= i < k + 1 && #[trigger] root_at(types, m, r0, i) && reach(types, types.types@[i].id, id) && rd(types, m, r0, i).derives@.contains(d);
            if i < k { assert(must_d(types, m, r0, k, id, d)); }
        }
        if must_d(types, m, r0, k, id, d) {
            let i = choose|i: int| 0 <= i < k && #[trigger] root_at(types, m, r0, i) && reach(types, types.types@[i].id, id) && rd(types, m, r0, i).derives@.contains(d);
            assert(0 <= i < k + 1);
        }
    }
    assert forall|id: u32, d: SynPath| #[trigger] may_d(types, m, r0, k + 1, id, d) == (may_d(types, m, r0, k, id, d) || (root_any(types, m, r0, k) && reachp(types, types.types@[k].id, id) && rd(types, m, r0, k).derives@.contains(d))) by {
        if may_d(types, m, r0, k + 1, id, d) {
            let i = choose|i: int| 0 <= i < k + 1 && #[trigger] root_any(types, m, r0, i) && reachp(types, types.types@[i].id, id) && rd(types, m, r0, i).derives@.contains(d);
            if i < k { assert(may_d(types, m, r0, k, id, d)); }
        }
        if may_d(types, m, r0, k, id, d) {
            let i = choose|i: int| 0 <= i < k && #[trigger] root_any(types, m, r0, i) && reachp(types, types.types@[i].id, id) && rd(types, m, r0, i).derives@.contains(d);
            assert(0 <= i < k + 1);
        }
    }
    assert forall|id: u32, x: SynAttribute| #[trigger] must_a(types, m, r0, k + 1, id, x) == (must_a(types, m, r0, k, id, x) || (root_at(types, m, r0, k) && reach(types, types.types@[k].id, id) && rd(types, m, r0, k).attributes@.contains(x))) by {
        if must_a(types, m, r0, k + 1, id, x) {
            let i = choose|i: int| 0 <= i < k + 1 && #[trigger] root_at(types, m, r0, i) && reach(types, types.types@[i].id, id) && rd(types, m, r0, i).attributes@.contains(x);
            if i < k { assert(must_a(types, m, r0, k, id, x)); }
        }
        if must_a(types, m, r0, k, id, x) {
            let i = choose|i: int| 0 <= i < k && #[trigger] root_at(types, m, r0, i) && reach(types, types.types@[i].id, id) && rd(types, m, r0, i).attributes@.contains(x);
            assert(0 <= i < k + 1);
        }
    }
    assert forall|id: u32, x: SynAttribute| #[trigger] may_a(types, m, r0, k + 1, id, x) == (may_a(types, m, r0, k, id, x) || (root_any(types, m, r0, k) && reachp(types, types.types@[k].id, id) && rd(types, m, r0, k).attributes@.contains(x))) by {
        if may_a(types, m, r0, k + 1, id, x) {
            let i = choose|i: int| 0 <= i < k + 1 && #[trigger] root_any(types, m, r0, i) && reachp(types, types.types@[i].id, id) && rd(types, m, r0, i).attributes@.contains(x);
            if i < k { assert(may_a(types, m, r0, k, id, x)); }
        }
        if may_a(types, m, r0, k, id, x) {
            let i = choose|i: int| 0 <= i < k && #[trigger] root_any(types, m, r0, i) && reachp(types, types.types@[i].id, id) && rd(types, m, r0, i).attributes@.contains(x);
            assert(0 <= i < k + 1);
        }
    }
}

// ---- loop 1, a root: the inner loop over the collected ids ----
pub open spec fn mid_ok(types: &PortableRegistry, m: Map<u32, SynTypePath>, r0: Map<SynTypePath, Derives>, k: int, a: Map<u32, Derives>, u: Seq<u32>, n: int, x: Derives) -> bool {
    &&& forall|id: u32, d: SynPath| #[trigger] must_d(types, m, r0, k, id, d) ==> ad(a, id, d)
    &&& forall|id: u32, d: SynPath| in_prefix(u, n, id) && x.derives@.contains(d) ==> #[trigger] ad(a, id, d)
    &&& forall|id: u32, d: SynPath| #[trigger] ad(a, id, d) ==> may_d(types, m, r0, k, id, d) || (in_prefix(u, n, id) && x.derives@.contains(d))
    &&& forall|id: u32, y: SynAttribute| #[trigger] must_a(types, m, r0, k, id, y) ==> aa(a, id, y)
    &&& forall|id: u32, y: SynAttribute| in_prefix(u, n, id) && x.attributes@.contains(y) ==> #[trigger] aa(a, id, y)
    &&& forall|id: u32, y: SynAttribute| #[trigger] aa(a, id, y) ==> may_a(types, m, r0, k, id, y) || (in_prefix(u, n, id) && x.attributes@.contains(y))
}
pub proof fn lemma_mid_init(types: &PortableRegistry, m: Map<u32, SynTypePath>, r0: Map<SynTypePath, Derives>, k: int, a: Map<u32, Derives>, u: Seq<u32>, x: Derives)
    requires acc_ok(types, m, r0, k, a)
    ensures mid_ok(types, m, r0, k, a, u, 0, x)
{
    assert forall|id: u32| !in_prefix(u, 0, id) by {}
}
pub proof fn lemma_prefix_step(u: Seq<u32>, n: int, id: u32)
    requires 0 <= n < u.len()
    ensures in_prefix(u, n + 1, id) == (in_prefix(u, n, id) || u[n] == id)
{
    if in_prefix(u, n + 1, id) { let j = choose|j: int| 0 <= j < n + 1 && #[trigger] u[j] == id; if j < n { assert(in_prefix(u, n, id)); } }
    if in_prefix(u, n, id) { let j = choose|j: int| 0 <= j < n && #[trigger] u[j] == id; assert(0 <= j < n + 1); }
    if u[n] == id { assert(0 <= n < n + 1 && u[n] == id); }
}
pub proof fn lemma_mid_step(types: &PortableRegistry, m: Map<u32, SynTypePath>, r0: Map<SynTypePath, Derives>, k: int, a0: Map<u32, Derives>, a1: Map<u32, Derives>, u: Seq<u32>, n: int, x: Derives)
    requires 0 <= n < u.len(), mid_ok(types, m, r0, k, a0, u, n, x), ext_id(a0, a1, u[n], x)
    ensures mid_ok(types, m, r0, k, a1, u, n + 1, x)
{
    assert forall|id: u32| in_prefix(u, n + 1, id) == (in_prefix(u, n, id) || u[n] == id) by { lemma_prefix_step(u, n, id); }
    assert forall|id: u32, d: SynPath| #[trigger] must_d(types, m, r0, k, id, d) implies ad(a1, id, d) by { assert(ad(a0, id, d)); }
    assert forall|id: u32, d: SynPath| in_prefix(u, n + 1, id) && x.derives@.contains(d) implies #[trigger] ad(a1, id, d) by {
        if in_prefix(u, n, id) { assert(ad(a0, id, d)); }
    }
    assert forall|id: u32, d: SynPath| #[trigger] ad(a1, id, d) implies may_d(types, m, r0, k, id, d) || (in_prefix(u, n + 1, id) && x.derives@.contains(d)) by {
        if ad(a0, id, d) { }
    }
    assert forall|id: u32, y: SynAttribute| #[trigger] must_a(types, m, r0, k, id, y) implies aa(a1, id, y) by { assert(aa(a0, id, y)); }
    assert forall|id: u32, y: SynAttribute| in_prefix(u, n + 1, id) && x.attributes@.contains(y) implies #[trigger] aa(a1, id, y) by {
        if in_prefix(u, n, id) { assert(aa(a0, id, y)); }
    }
    assert forall|id: u32, y: SynAttribute| #[trigger] aa(a1, id, y) implies may_a(types, m, r0, k, id, y) || (in_prefix(u, n + 1, id) && x.attributes@.contains(y)) by {
        if aa(a0, id, y) { }
    }
}
/// the sequence u lists exactly the members of a set that collect_type_ids produced from the empty set for `root`
pub open spec fn collected_as(types: &PortableRegistry, root: u32, u: Seq<u32>) -> bool {
    exists|s: Set<u32>| #[trigger] call_post(types, root, Set::<u32>::empty(), s) && (forall|y: u32| s.contains(y) <==> u.contains(y))
}
pub proof fn lemma_mid_finish(types: &PortableRegistry, m: Map<u32, SynTypePath>, r0: Map<SynTypePath, Derives>, rc0: Map<SynTypePath, Derives>, rc1: Map<SynTypePath, Derives>, k: int, a: Map<u32, Derives>, u: Seq<u32>, x: Derives)
    requires 0 <= k < types.types@.len(), closed(types),
        rec_inv(types, m, r0, rc0, k), m.contains_key(types.types@[k].id), rc0.contains_key(m[types.types@[k].id]),
        rc1 == rc0.remove(m[types.types@[k].id]), x.derives@ == rc0[m[types.types@[k].id]].derives@, x.attributes@ == rc0[m[types.types@[k].id]].attributes@,
        mid_ok(types, m, r0, k, a, u, u.len() as int, x),
        collected_as(types, types.types@[k].id, u),
    ensures acc_ok(types, m, r0, k + 1, a), rec_inv(types, m, r0, rc1, k + 1)
{
    let idk = types.types@[k].id;
    let s = choose|s: Set<u32>| #[trigger] call_post(types, idk, Set::<u32>::empty(), s) && (forall|y: u32| s.contains(y) <==> u.contains(y));
    let q = m[idk];
    assert(rc0.contains_key(q) == (r0.contains_key(q) && !seen(types, m, k, q)));
    assert(root_at(types, m, r0, k)) by {
        assert forall|j: int| 0 <= j < k implies !(m.contains_key((#[trigger] types.types@[j]).id) && m[types.types@[j].id] == q) by {
            if m.contains_key(types.types@[j].id) && m[types.types@[j].id] == q { assert(seen(types, m, k, q)); }
        }
    }
    assert(rd(types, m, r0, k) == r0[q]);
    assert(rc0[q] == r0[q]);
    lemma_bounds_step(types, m, r0, k);
    assert forall|id: u32| in_prefix(u, u.len() as int, id) == s.contains(id) by {
        if in_prefix(u, u.len() as int, id) { let j = choose|j: int| 0 <= j < u.len() && #[trigger] u[j] == id; assert(u.contains(id)); }
        if u.contains(id) { let j = choose|j: int| 0 <= j < u.len() && u[j] == id; assert(in_prefix(u, u.len() as int, id)); }
    }
    assert forall|id: u32| reach(types, idk, id) implies s.contains(id) by {
        assert forall|a1: u32, b1: u32| s.contains(a1) && succ(types, a1, b1) implies s.contains(b1) by { }
        lemma_closed_contains_reach(types, idk, s, id);
    }
    assert forall|id: u32, d: SynPath| #[trigger] must_d(types, m, r0, k + 1, id, d) implies ad(a, id, d) by {
        if !must_d(types, m, r0, k, id, d) { assert(s.contains(id)); assert(in_prefix(u, u.len() as int, id)); }
    }
    assert forall|id: u32, d: SynPath| #[trigger] ad(a, id, d) implies may_d(types, m, r0, k + 1, id, d) by {
        if !may_d(types, m, r0, k, id, d) { assert(s.contains(id)); assert(reachp(types, idk, id)); }
    }
    assert forall|id: u32, y: SynAttribute| #[trigger] must_a(types, m, r0, k + 1, id, y) implies aa(a, id, y) by {
        if !must_a(types, m, r0, k, id, y) { assert(s.contains(id)); assert(in_prefix(u, u.len() as int, id)); }
    }
    assert forall|id: u32, y: SynAttribute| #[trigger] aa(a, id, y) implies may_a(types, m, r0, k + 1, id, y) by {
        if !may_a(types, m, r0, k, id, y) { assert(s.contains(id)); assert(reachp(types, idk, id)); }
    }
    assert forall|q2: SynTypePath| (#[trigger] rc1.contains_key(q2)) == (r0.contains_key(q2) && !seen(types, m, k + 1, q2)) && (rc1.contains_key(q2) ==> rc1[q2] == r0[q2]) by {
        assert(rc0.contains_key(q2) == (r0.contains_key(q2) && !seen(types, m, k, q2)));
        lemma_seen_step(types, m, k, q2);
    }
}

// ---- loop 3: merging by path ----
pub open spec fn in_keys<V>(e: Seq<(u32, V)>, n: int, id: u32) -> bool { exists|j: int| 0 <= j < n && (#[trigger] e[j]).0 == id }
pub open spec fn hit_d(m: Map<u32, SynTypePath>, e: Seq<(u32, Derives)>, n: int, p: SynTypePath, d: SynPath) -> bool {
    exists|j: int| 0 <= j < n && m.contains_key((#[trigger] e[j]).0) && m[e[j].0] == p && e[j].1.derives@.contains(d)
}
pub open spec fn hit_a(m: Map<u32, SynTypePath>, e: Seq<(u32, Derives)>, n: int, p: SynTypePath, y: SynAttribute) -> bool {
    exists|j: int| 0 <= j < n && m.contains_key((#[trigger] e[j]).0) && m[e[j].0] == p && e[j].1.attributes@.contains(y)
}
pub open spec fn merge_ok(m: Map<u32, SynTypePath>, mc: Map<u32, SynTypePath>, s0: Map<SynTypePath, Derives>, sc: Map<SynTypePath, Derives>, e: Seq<(u32, Derives)>, n: int) -> bool {
    &&& forall|id: u32| !in_keys(e, n, id) ==> (#[trigger] mc.contains_key(id)) == m.contains_key(id) && (mc.contains_key(id) ==> mc[id] == m[id])
    &&& forall|p: SynTypePath, d: SynPath| #[trigger] sd(sc, p, d) == (sd(s0, p, d) || hit_d(m, e, n, p, d))
    &&& forall|p: SynTypePath, y: SynAttribute| #[trigger] sa(sc, p, y) == (sa(s0, p, y) || hit_a(m, e, n, p, y))
}
pub proof fn lemma_merge_init(m: Map<u32, SynTypePath>, s0: Map<SynTypePath, Derives>, e: Seq<(u32, Derives)>)
    ensures merge_ok(m, m, s0, s0, e, 0)
{
    assert forall|id: u32| !in_keys(e, 0, id) by {}
}
pub proof fn lemma_merge_step(m: Map<u32, SynTypePath>, mc0: Map<u32, SynTypePath>, mc1: Map<u32, SynTypePath>, s0: Map<SynTypePath, Derives>, sc0: Map<SynTypePath, Derives>, sc1: Map<SynTypePath, Derives>, e: Seq<(u32, Derives)>, n: int)
    requires 0 <= n < e.len(), merge_ok(m, mc0, s0, sc0, e, n),
        forall|i: int, j: int| 0 <= i < j < e.len() ==> (#[trigger] e[i]).0 != (#[trigger] e[j]).0,
        forall|i2: u32| i2 != e[n].0 ==> (#[trigger] mc1.contains_key(i2)) == mc0.contains_key(i2) && (mc0.contains_key(i2) ==> mc1[i2] == mc0[i2]),
        mc0.contains_key(e[n].0) ==> ext_path(sc0, sc1, mc0[e[n].0], e[n].1),
        !mc0.contains_key(e[n].0) ==> sc1 == sc0,
    ensures merge_ok(m, mc1, s0, sc1, e, n + 1)
{
    let id = e[n].0;
    assert(!in_keys(e, n, id)) by {
        if in_keys(e, n, id) { let j = choose|j: int| 0 <= j < n && (#[trigger] e[j]).0 == id; assert(e[j].0 != e[n].0); }
    }
    assert(mc0.contains_key(id) == m.contains_key(id));
    assert forall|i2: u32| in_keys(e, n + 1, i2) == (in_keys(e, n, i2) || i2 == id) by {
        if in_keys(e, n + 1, i2) { let j = choose|j: int| 0 <= j < n + 1 && (#[trigger] e[j]).0 == i2; if j < n { assert(in_keys(e, n, i2)); } }
        if in_keys(e, n, i2) { let j = choose|j: int| 0 <= j < n && (#[trigger] e[j]).0 == i2; assert(0 <= j < n + 1); }
        if i2 == id { assert(0 <= n < n + 1 && e[n].0 == i2); }
    }
    assert forall|i2: u32| !in_keys(e, n + 1, i2) implies (#[trigger] mc1.contains_key(i2)) == m.contains_key(i2) && (mc1.contains_key(i2) ==> mc1[i2] == m[i2]) by {
        assert(!in_keys(e, n, i2) && i2 != id);
        assert(mc0.contains_key(i2) == m.contains_key(i2));
    }
    assert forall|p: SynTypePath, d: SynPath| hit_d(m, e, n + 1, p, d) == (hit_d(m, e, n, p, d) || (m.contains_key(id) && m[id] == p && e[n].1.derives@.contains(d))) by {
        if hit_d(m, e, n + 1, p, d) { let j = choose|j: int| 0 <= j < n + 1 && m.contains_key((#[trigger] e[j]).0) && m[e[j].0] == p && e[j].1.derives@.contains(d); if j < n { assert(hit_d(m, e, n, p, d)); } }
        if hit_d(m, e, n, p, d) { let j = choose|j: int| 0 <= j < n && m.contains_key((#[trigger] e[j]).0) && m[e[j].0] == p && e[j].1.derives@.contains(d); assert(0 <= j < n + 1); }
        if m.contains_key(id) && m[id] == p && e[n].1.derives@.contains(d) { assert(0 <= n < n + 1 && m.contains_key(e[n].0)); }
    }
    assert forall|p: SynTypePath, y: SynAttribute| hit_a(m, e, n + 1, p, y) == (hit_a(m, e, n, p, y) || (m.contains_key(id) && m[id] == p && e[n].1.attributes@.contains(y))) by {
        if hit_a(m, e, n + 1, p, y) { let j = choose|j: int| 0 <= j < n + 1 && m.contains_key((#[trigger] e[j]).0) && m[e[j].0] == p && e[j].1.attributes@.contains(y); if j < n { assert(hit_a(m, e, n, p, y)); } }
        if hit_a(m, e, n, p, y) { let j = choose|j: int| 0 <= j < n && m.contains_key((#[trigger] e[j]).0) && m[e[j].0] == p && e[j].1.attributes@.contains(y); assert(0 <= j < n + 1); }
        if m.contains_key(id) && m[id] == p && e[n].1.attributes@.contains(y) { assert(0 <= n < n + 1 && m.contains_key(e[n].0)); }
    }
    assert forall|p: SynTypePath, d: SynPath| #[trigger] sd(sc1, p, d) == (sd(s0, p, d) || hit_d(m, e, n + 1, p, d)) by {
        assert(sd(sc0, p, d) == (sd(s0, p, d) || hit_d(m, e, n, p, d)));
    }
    assert forall|p: SynTypePath, y: SynAttribute| #[trigger] sa(sc1, p, y) == (sa(s0, p, y) || hit_a(m, e, n + 1, p, y)) by {
        assert(sa(sc0, p, y) == (sa(s0, p, y) || hit_a(m, e, n, p, y)));
    }
}
/// implication form for the START of the merge loop body: an id without a syn path changes nothing
pub proof fn lemma_merge_skip_if(m: Map<u32, SynTypePath>, mc0: Map<u32, SynTypePath>, s0: Map<SynTypePath, Derives>, sc0: Map<SynTypePath, Derives>, e: Seq<(u32, Derives)>, n: int)
    requires 0 <= n < e.len(), merge_ok(m, mc0, s0, sc0, e, n),
        forall|i: int, j: int| 0 <= i < j < e.len() ==> (#[trigger] e[i]).0 != (#[trigger] e[j]).0,
    ensures !mc0.contains_key(e[n].0) ==> merge_ok(m, mc0, s0, sc0, e, n + 1) && mc0.remove(e[n].0) == mc0,
{
    if !mc0.contains_key(e[n].0) { lemma_merge_step(m, mc0, mc0, s0, sc0, sc0, e, n); assert(mc0.remove(e[n].0) =~= mc0); }
}
pub proof fn lemma_merge_finish(types: &PortableRegistry, m: Map<u32, SynTypePath>, mc: Map<u32, SynTypePath>, r0: Map<SynTypePath, Derives>, s0: Map<SynTypePath, Derives>, sc: Map<SynTypePath, Derives>, a: Map<u32, Derives>, e: Seq<(u32, Derives)>)
    requires merge_ok(m, mc, s0, sc, e, e.len() as int), id_entries_of(e, a), acc_ok(types, m, r0, types.types@.len() as int, a)
    ensures flat_ok(types, m, r0, s0, sc)
{
    let n = types.types@.len() as int;
    assert forall|p: SynTypePath, d: SynPath| #[trigger] sd(s0, p, d) implies sd(sc, p, d) by {}
    assert forall|id: u32, d: SynPath| m.contains_key(id) && #[trigger] must_d(types, m, r0, n, id, d) implies sd(sc, m[id], d) by {
        assert(ad(a, id, d));
        let j = choose|j: int| 0 <= j < e.len() && (#[trigger] e[j]).0 == id;
        assert(hit_d(m, e, e.len() as int, m[id], d));
    }
    assert forall|p: SynTypePath, d: SynPath| #[trigger] sd(sc, p, d) implies sd(s0, p, d) || exists|id: u32| m.contains_key(id) && m[id] == p && #[trigger] may_d(types, m, r0, n, id, d) by {
        if !sd(s0, p, d) {
            assert(hit_d(m, e, e.len() as int, p, d));
            let j = choose|j: int| 0 <= j < e.len() && m.contains_key((#[trigger] e[j]).0) && m[e[j].0] == p && e[j].1.derives@.contains(d);
            assert(ad(a, e[j].0, d));
            assert(may_d(types, m, r0, n, e[j].0, d));
        }
    }
    assert forall|p: SynTypePath, y: SynAttribute| #[trigger] sa(s0, p, y) implies sa(sc, p, y) by {}
    assert forall|id: u32, y: SynAttribute| m.contains_key(id) && #[trigger] must_a(types, m, r0, n, id, y) implies sa(sc, m[id], y) by {
        assert(aa(a, id, y));
        let j = choose|j: int| 0 <= j < e.len() && (#[trigger] e[j]).0 == id;
        assert(hit_a(m, e, e.len() as int, m[id], y));
    }
    assert forall|p: SynTypePath, y: SynAttribute| #[trigger] sa(sc, p, y) implies sa(s0, p, y) || exists|id: u32| m.contains_key(id) && m[id] == p && #[trigger] may_a(types, m, r0, n, id, y) by {
        if !sa(s0, p, y) {
            assert(hit_a(m, e, e.len() as int, p, y));
            let j = choose|j: int| 0 <= j < e.len() && m.contains_key((#[trigger] e[j]).0) && m[e[j].0] == p && e[j].1.attributes@.contains(y);
            assert(aa(a, e[j].0, y));
            assert(may_a(types, m, r0, n, e[j].0, y));
        }
    }
}
pub proof fn lemma_acc_init(types: &PortableRegistry, m: Map<u32, SynTypePath>, r0: Map<SynTypePath, Derives>)
    ensures acc_ok(types, m, r0, 0, Map::<u32, Derives>::empty()), rec_inv(types, m, r0, r0, 0)
{
    assert forall|q: SynTypePath| !seen(types, m, 0, q) by {}
}
pub open spec fn rec_empty(r: Map<SynTypePath, Derives>) -> bool { forall|k: SynTypePath| !r.contains_key(k) }
