// ===== U-CALLS: no extra vocabulary (uses ids_consistent / names_a_mismatch of U-SANITY) =====
