// ===== U-VALIDATE: spec vocabulary (from the statement of C11) and lemmas (no assume/admit) =====
// ================= spec vocabulary (lemmas.rs) =================
pub open spec fn known(types: &PortableRegistry, p: Seq<String>) -> bool {
    exists|i: int| 0 <= i < types.types@.len() && has_path(#[trigger] &types.types@[i], p)
}
pub open spec fn unknown_path(types: &PortableRegistry, p: SynPath) -> bool { !known(types, segments_of(p)@) }

/// derive `d` is registered for path `p` in map `m` (under some key whose `.path` is `p`)
pub open spec fn reg_d(m: Map<SynTypePath, Derives>, p: SynPath, d: SynPath) -> bool {
    exists|k: SynTypePath| #[trigger] m.contains_key(k) && k.path == p && m[k].derives@.contains(d)
}
pub open spec fn reg_a(m: Map<SynTypePath, Derives>, p: SynPath, a: SynAttribute) -> bool {
    exists|k: SynTypePath| #[trigger] m.contains_key(k) && k.path == p && m[k].attributes@.contains(a)
}
/// the same over the first n elements of an iteration sequence
pub open spec fn seq_d(s: Seq<(SynTypePath, Derives)>, n: int, p: SynPath, d: SynPath) -> bool {
    exists|j: int| 0 <= j < n && (#[trigger] s[j]).0.path == p && s[j].1.derives@.contains(d)
}
pub open spec fn seq_a(s: Seq<(SynTypePath, Derives)>, n: int, p: SynPath, a: SynAttribute) -> bool {
    exists|j: int| 0 <= j < n && (#[trigger] s[j]).0.path == p && s[j].1.attributes@.contains(a)
}

pub open spec fn nonempty<T>(s: Set<T>) -> bool { exists|x: T| s.contains(x) }
/// "the list names exactly the unknown paths that have something registered, each once, with everything registered for it"
pub open spec fn list_ok<T>(types: &PortableRegistry, l: Seq<(SynPath, HSet<T>)>, reg: spec_fn(SynPath, T) -> bool) -> bool {
    &&& forall|i: int| 0 <= i < l.len() ==> unknown_path(types, (#[trigger] l[i]).0)
    &&& forall|i: int, j: int| 0 <= i < j < l.len() ==> (#[trigger] l[i]).0 != (#[trigger] l[j]).0
    &&& forall|i: int, x: T| 0 <= i < l.len() ==> ((#[trigger] l[i]).1@.contains(x) <==> #[trigger] reg(l[i].0, x))
    &&& forall|i: int| 0 <= i < l.len() ==> nonempty((#[trigger] l[i]).1@)
    &&& forall|p: SynPath, x: T| unknown_path(types, p) && #[trigger] reg(p, x) ==> exists|i: int| 0 <= i < l.len() && (#[trigger] l[i]).0 == p
}

pub open spec fn unknown_key(types: &PortableRegistry, k: Seq<Seq<char>>) -> bool {
    !exists|i: int| 0 <= i < types.types@.len() && key_of(#[trigger] types.types@[i].ty.path.segments) == k
}
pub open spec fn listed(l: Seq<(SynPath, SynPath)>, a: SynPath, b: SynPath) -> bool {
    exists|i: int| 0 <= i < l.len() && #[trigger] l[i] == (a, b)
}
pub open spec fn from_map(types: &PortableRegistry, e: (SynPath, SynPath), m: Map<Seq<Seq<char>>, Substitute>) -> bool {
    exists|k: Seq<Seq<char>>| #[trigger] m.contains_key(k) && unknown_key(types, k) && e.0 == syn_path_of(k) && e.1 == m[k].path
}
pub open spec fn from_seq(types: &PortableRegistry, e: (SynPath, SynPath), s: Seq<(Vec<String>, Substitute)>, n: int) -> bool {
    exists|j: int| 0 <= j < n && unknown_key(types, key_of((#[trigger] s[j]).0)) && e.0 == syn_path_of(key_of(s[j].0)) && e.1 == s[j].1.path
}
/// "each unknown substitute with its target"
pub open spec fn subs_ok(types: &PortableRegistry, l: Seq<(SynPath, SynPath)>, m: Map<Seq<Seq<char>>, Substitute>) -> bool {
    &&& forall|i: int| 0 <= i < l.len() ==> from_map(types, #[trigger] l[i], m)
    &&& forall|k: Seq<Seq<char>>| #[trigger] m.contains_key(k) && unknown_key(types, k) ==> listed(l, syn_path_of(k), m[k].path)
}
pub open spec fn subs_seq_ok(types: &PortableRegistry, l: Seq<(SynPath, SynPath)>, s: Seq<(Vec<String>, Substitute)>, n: int) -> bool {
    &&& forall|i: int| 0 <= i < l.len() ==> from_seq(types, #[trigger] l[i], s, n)
    &&& forall|j: int| 0 <= j < n && unknown_key(types, key_of((#[trigger] s[j]).0)) ==> listed(l, syn_path_of(key_of(s[j].0)), s[j].1.path)
}

pub open spec fn reg_both_d(dr: &DerivesRegistry) -> spec_fn(SynPath, SynPath) -> bool {
    |p: SynPath, d: SynPath| reg_d(dr.specific_type_derives@, p, d) || reg_d(dr.recursive_type_derives@, p, d)
}
pub open spec fn reg_both_a(dr: &DerivesRegistry) -> spec_fn(SynPath, SynAttribute) -> bool {
    |p: SynPath, a: SynAttribute| reg_a(dr.specific_type_derives@, p, a) || reg_a(dr.recursive_type_derives@, p, a)
}
pub open spec fn reg_seq_d(s: Seq<(SynTypePath, Derives)>, n: int) -> spec_fn(SynPath, SynPath) -> bool {
    |p: SynPath, d: SynPath| seq_d(s, n, p, d)
}
pub open spec fn reg_seq_a(s: Seq<(SynTypePath, Derives)>, n: int) -> spec_fn(SynPath, SynAttribute) -> bool {
    |p: SynPath, a: SynAttribute| seq_a(s, n, p, a)
}
// ================= lemmas =================
pub proof fn lemma_list_push<T>(types: &PortableRegistry, l: Seq<(SynPath, HSet<T>)>, ro: spec_fn(SynPath, T) -> bool, rn: spec_fn(SynPath, T) -> bool, e: (SynPath, HSet<T>))
    requires list_ok(types, l, ro), unknown_path(types, e.0),
        forall|i: int| 0 <= i < l.len() ==> (#[trigger] l[i]).0 != e.0,
        nonempty(e.1@),
        forall|q: SynPath, x: T| #[trigger] rn(q, x) <==> (ro(q, x) || (q == e.0 && e.1@.contains(x))),
        forall|x: T| !(#[trigger] ro(e.0, x)),
    ensures list_ok(types, l.push(e), rn)
{
    let l2 = l.push(e);
    assert forall|i: int, x: T| 0 <= i < l2.len() implies ((#[trigger] l2[i]).1@.contains(x) <==> #[trigger] rn(l2[i].0, x)) by {
        if i < l.len() { assert(l2[i] == l[i]); assert(ro(l[i].0, x) <==> l[i].1@.contains(x)); }
    }
    assert forall|p: SynPath, x: T| unknown_path(types, p) && #[trigger] rn(p, x) implies exists|i: int| 0 <= i < l2.len() && (#[trigger] l2[i]).0 == p by {
        if ro(p, x) { let i = choose|i: int| 0 <= i < l.len() && (#[trigger] l[i]).0 == p; assert(l2[i] == l[i]); }
        else { assert(l2[l.len() as int] == e); }
    }
    assert forall|i: int| 0 <= i < l2.len() implies nonempty((#[trigger] l2[i]).1@) by {
        if i < l.len() { assert(l2[i] == l[i]); }
    }
    assert forall|i: int, j: int| 0 <= i < j < l2.len() implies (#[trigger] l2[i]).0 != (#[trigger] l2[j]).0 by {
        assert(l2[i] == l[i]);
        if j < l.len() { assert(l2[j] == l[j]); }
    }
    assert forall|i: int| 0 <= i < l2.len() implies unknown_path(types, (#[trigger] l2[i]).0) by {
        if i < l.len() { assert(l2[i] == l[i]); }
    }
}

pub proof fn lemma_list_extend<T>(types: &PortableRegistry, l: Seq<(SynPath, HSet<T>)>, ro: spec_fn(SynPath, T) -> bool, rn: spec_fn(SynPath, T) -> bool, k: int, e: (SynPath, HSet<T>), add: Set<T>)
    requires list_ok(types, l, ro), 0 <= k < l.len(), e.0 == l[k].0, e.1@ == l[k].1@.union(add),
        forall|q: SynPath, x: T| #[trigger] rn(q, x) <==> (ro(q, x) || (q == e.0 && add.contains(x))),
    ensures list_ok(types, l.update(k, e), rn)
{
    let l2 = l.update(k, e);
    assert forall|i: int, x: T| 0 <= i < l2.len() implies ((#[trigger] l2[i]).1@.contains(x) <==> #[trigger] rn(l2[i].0, x)) by {
        if i != k { assert(l2[i] == l[i]); assert(l[i].0 != l[k].0); assert(ro(l[i].0, x) <==> l[i].1@.contains(x)); }
        else { assert(ro(l[k].0, x) <==> l[k].1@.contains(x)); }
    }
    assert forall|p: SynPath, x: T| unknown_path(types, p) && #[trigger] rn(p, x) implies exists|i: int| 0 <= i < l2.len() && (#[trigger] l2[i]).0 == p by {
        if ro(p, x) { let i = choose|i: int| 0 <= i < l.len() && (#[trigger] l[i]).0 == p; assert(l2[i].0 == l[i].0); }
        else { assert(l2[k].0 == p); }
    }
    assert forall|i: int| 0 <= i < l2.len() implies nonempty((#[trigger] l2[i]).1@) by {
        assert(nonempty(l[i].1@)); let x = choose|x: T| l[i].1@.contains(x);
        if i != k { assert(l2[i] == l[i]); } else { assert(l2[k].1@.contains(x)); }
    }
    assert forall|i: int, j: int| 0 <= i < j < l2.len() implies (#[trigger] l2[i]).0 != (#[trigger] l2[j]).0 by {
        assert(l2[i].0 == l[i].0); assert(l2[j].0 == l[j].0);
    }
    assert forall|i: int| 0 <= i < l2.len() implies unknown_path(types, (#[trigger] l2[i]).0) by {
        assert(l2[i].0 == l[i].0);
    }
}

pub proof fn lemma_list_same<T>(types: &PortableRegistry, l: Seq<(SynPath, HSet<T>)>, ro: spec_fn(SynPath, T) -> bool, rn: spec_fn(SynPath, T) -> bool)
    requires list_ok(types, l, ro),
        forall|q: SynPath, x: T| unknown_path(types, q) ==> (#[trigger] rn(q, x) <==> ro(q, x)),
    ensures list_ok(types, l, rn)
{
    assert forall|i: int, x: T| 0 <= i < l.len() implies ((#[trigger] l[i]).1@.contains(x) <==> #[trigger] rn(l[i].0, x)) by {
        assert(ro(l[i].0, x) <==> l[i].1@.contains(x));
    }
    assert forall|p: SynPath, x: T| unknown_path(types, p) && #[trigger] rn(p, x) implies exists|i: int| 0 <= i < l.len() && (#[trigger] l[i]).0 == p by {
        assert(ro(p, x));
    }
}

pub proof fn lemma_seq_step_d(s: Seq<(SynTypePath, Derives)>, n: int)
    requires 0 <= n < s.len()
    ensures forall|p: SynPath, d: SynPath| #[trigger] seq_d(s, n + 1, p, d) <==> (seq_d(s, n, p, d) || (s[n].0.path == p && s[n].1.derives@.contains(d)))
{
    assert forall|p: SynPath, d: SynPath| #[trigger] seq_d(s, n + 1, p, d) <==> (seq_d(s, n, p, d) || (s[n].0.path == p && s[n].1.derives@.contains(d))) by {
        if seq_d(s, n + 1, p, d) {
            let j = choose|j: int| 0 <= j < n + 1 && (#[trigger] s[j]).0.path == p && s[j].1.derives@.contains(d);
            if j < n { assert(seq_d(s, n, p, d)); }
        }
        if seq_d(s, n, p, d) {
            let j = choose|j: int| 0 <= j < n && (#[trigger] s[j]).0.path == p && s[j].1.derives@.contains(d);
            assert(0 <= j < n + 1);
        }
        if s[n].0.path == p && s[n].1.derives@.contains(d) { assert(0 <= n < n + 1 && s[n].0.path == p); }
    }
}
pub proof fn lemma_seq_step_a(s: Seq<(SynTypePath, Derives)>, n: int)
    requires 0 <= n < s.len()
    ensures forall|p: SynPath, d: SynAttribute| #[trigger] seq_a(s, n + 1, p, d) <==> (seq_a(s, n, p, d) || (s[n].0.path == p && s[n].1.attributes@.contains(d)))
{
    assert forall|p: SynPath, d: SynAttribute| #[trigger] seq_a(s, n + 1, p, d) <==> (seq_a(s, n, p, d) || (s[n].0.path == p && s[n].1.attributes@.contains(d))) by {
        if seq_a(s, n + 1, p, d) {
            let j = choose|j: int| 0 <= j < n + 1 && (#[trigger] s[j]).0.path == p && s[j].1.attributes@.contains(d);
            if j < n { assert(seq_a(s, n, p, d)); }
        }
        if seq_a(s, n, p, d) {
            let j = choose|j: int| 0 <= j < n && (#[trigger] s[j]).0.path == p && s[j].1.attributes@.contains(d);
            assert(0 <= j < n + 1);
        }
        if s[n].0.path == p && s[n].1.attributes@.contains(d) { assert(0 <= n < n + 1 && s[n].0.path == p); }
    }
}
pub proof fn lemma_step<T>(types: &PortableRegistry, l0: Seq<(SynPath, HSet<T>)>, l1: Seq<(SynPath, HSet<T>)>, ro: spec_fn(SynPath, T) -> bool, rn: spec_fn(SynPath, T) -> bool, p: SynPath, add: Set<T>, unk: bool)
    requires list_ok(types, l0, ro),
        unk == unknown_path(types, p),
        forall|q: SynPath, x: T| #[trigger] rn(q, x) <==> (ro(q, x) || (q == p && add.contains(x))),
        // what the loop body did to the list, as the three cases of the code
        (!unk || !nonempty(add)) ==> l1 == l0,
        (unk && nonempty(add)) ==> {
            ||| (exists|k: int, e: (SynPath, HSet<T>)| 0 <= k < l0.len() && l0[k].0 == p && e.0 == p && e.1@ == l0[k].1@.union(add) && l1 == l0.update(k, e))
            ||| ((forall|i: int| 0 <= i < l0.len() ==> (#[trigger] l0[i]).0 != p) && exists|e: (SynPath, HSet<T>)| e.0 == p && e.1@ == add && l1 == l0.push(e))
        },
    ensures list_ok(types, l1, rn)
{
    if !unk || !nonempty(add) {
        lemma_list_same(types, l0, ro, rn);
    } else {
        if exists|k: int, e: (SynPath, HSet<T>)| 0 <= k < l0.len() && l0[k].0 == p && e.0 == p && e.1@ == l0[k].1@.union(add) && l1 == l0.update(k, e) {
            let (k, e) = choose|k: int, e: (SynPath, HSet<T>)| 0 <= k < l0.len() && l0[k].0 == p && e.0 == p && e.1@ == l0[k].1@.union(add) && l1 == l0.update(k, e);
            lemma_list_extend(types, l0, ro, rn, k, e, add);
        } else {
            let e = choose|e: (SynPath, HSet<T>)| e.0 == p && e.1@ == add && l1 == l0.push(e);
            assert forall|x: T| !(#[trigger] ro(p, x)) by {
                if ro(p, x) { let i = choose|i: int| 0 <= i < l0.len() && (#[trigger] l0[i]).0 == p; assert(false); }
            }
            lemma_list_push(types, l0, ro, rn, e);
        }
    }
}

pub proof fn lemma_known_key(types: &PortableRegistry, p: Vec<String>)
    ensures known(types, p@) <==> !unknown_key(types, key_of(p))
{
    if known(types, p@) {
        let i = choose|i: int| 0 <= i < types.types@.len() && has_path(#[trigger] &types.types@[i], p@);
        assert(key_of(types.types@[i].ty.path.segments) =~= key_of(p));
    }
    if !unknown_key(types, key_of(p)) {
        let i = choose|i: int| 0 <= i < types.types@.len() && key_of(#[trigger] types.types@[i].ty.path.segments) == key_of(p);
        let a = types.types@[i].ty.path.segments;
        assert(key_of(a).len() == key_of(p).len());
        assert forall|j: int| 0 <= j < a@.len() implies (#[trigger] a@[j])@ == p@[j]@ by { assert(key_of(a)[j] == key_of(p)[j]); }
        assert(has_path(&types.types@[i], p@));
    }
}

pub proof fn lemma_subs_step(types: &PortableRegistry, l0: Seq<(SynPath, SynPath)>, l1: Seq<(SynPath, SynPath)>, s: Seq<(Vec<String>, Substitute)>, n: int)
    requires 0 <= n < s.len(), subs_seq_ok(types, l0, s, n),
        unknown_key(types, key_of(s[n].0)) ==> l1 == l0.push((syn_path_of(key_of(s[n].0)), s[n].1.path)),
        !unknown_key(types, key_of(s[n].0)) ==> l1 == l0,
    ensures subs_seq_ok(types, l1, s, n + 1)
{
    assert forall|i: int| 0 <= i < l1.len() implies from_seq(types, #[trigger] l1[i], s, n + 1) by {
        if i < l0.len() {
            assert(l1[i] == l0[i]);
            assert(from_seq(types, l0[i], s, n));
            let j = choose|j: int| 0 <= j < n && unknown_key(types, key_of((#[trigger] s[j]).0)) && l0[i].0 == syn_path_of(key_of(s[j].0)) && l0[i].1 == s[j].1.path;
            assert(0 <= j < n + 1);
        } else {
            assert(unknown_key(types, key_of(s[n].0)));
        }
    }
    assert forall|j: int| 0 <= j < n + 1 && unknown_key(types, key_of((#[trigger] s[j]).0)) implies listed(l1, syn_path_of(key_of(s[j].0)), s[j].1.path) by {
        if j < n {
            assert(listed(l0, syn_path_of(key_of(s[j].0)), s[j].1.path));
            let i = choose|i: int| 0 <= i < l0.len() && #[trigger] l0[i] == (syn_path_of(key_of(s[j].0)), s[j].1.path);
            assert(l1[i] == l0[i]);
        } else {
            assert(l1[l0.len() as int] == (syn_path_of(key_of(s[n].0)), s[n].1.path));
        }
    }
}

pub proof fn lemma_subs_final(types: &PortableRegistry, l: Seq<(SynPath, SynPath)>, s: Seq<(Vec<String>, Substitute)>, m: Map<Seq<Seq<char>>, Substitute>)
    requires subs_seq_ok(types, l, s, s.len() as int), sub_entries_of(s, m)
    ensures subs_ok(types, l, m)
{
    assert forall|i: int| 0 <= i < l.len() implies from_map(types, #[trigger] l[i], m) by {
        assert(from_seq(types, l[i], s, s.len() as int));
        let j = choose|j: int| 0 <= j < s.len() && unknown_key(types, key_of((#[trigger] s[j]).0)) && l[i].0 == syn_path_of(key_of(s[j].0)) && l[i].1 == s[j].1.path;
        assert(m.contains_key(key_of(s[j].0)));
    }
    assert forall|k: Seq<Seq<char>>| #[trigger] m.contains_key(k) && unknown_key(types, k) implies listed(l, syn_path_of(k), m[k].path) by {
        let j = choose|j: int| 0 <= j < s.len() && key_of((#[trigger] s[j]).0) == k;
        assert(unknown_key(types, key_of(s[j].0)));
    }
}

pub proof fn lemma_maps_d(types: &PortableRegistry, dr: &DerivesRegistry, s0: Seq<(SynTypePath, Derives)>, l: Seq<(SynPath, HSet<SynPath>)>)
    requires exists|s1: Seq<(SynTypePath, Derives)>, s2: Seq<(SynTypePath, Derives)>|
            entries_of(s1, dr.specific_type_derives@) && entries_of(s2, dr.recursive_type_derives@) && s0 == s1 + s2,
        list_ok(types, l, reg_seq_d(s0, s0.len() as int)),
    ensures list_ok(types, l, reg_both_d(dr))
{
    let (s1, s2) = choose|s1: Seq<(SynTypePath, Derives)>, s2: Seq<(SynTypePath, Derives)>|
            entries_of(s1, dr.specific_type_derives@) && entries_of(s2, dr.recursive_type_derives@) && s0 == s1 + s2;
    let m1 = dr.specific_type_derives@; let m2 = dr.recursive_type_derives@;
    let n = s0.len() as int;
    assert forall|p: SynPath, d: SynPath| #[trigger] reg_both_d(dr)(p, d) <==> reg_seq_d(s0, n)(p, d) by {
        if seq_d(s0, n, p, d) {
            let j = choose|j: int| 0 <= j < n && (#[trigger] s0[j]).0.path == p && s0[j].1.derives@.contains(d);
            if j < s1.len() { assert(s0[j] == s1[j]); assert(m1.contains_key(s1[j].0)); assert(reg_d(m1, p, d)); }
            else { let e = s2[j - s1.len()]; assert(s0[j] == e); assert(m2.contains_key(e.0)); assert(reg_d(m2, p, d)); }
        }
        if reg_d(m1, p, d) {
            let k = choose|k: SynTypePath| #[trigger] m1.contains_key(k) && k.path == p && m1[k].derives@.contains(d);
            let i = choose|i: int| 0 <= i < s1.len() && (#[trigger] s1[i]).0 == k;
            assert(s0[i] == s1[i]);
            assert(seq_d(s0, n, p, d));
        }
        if reg_d(m2, p, d) {
            let k = choose|k: SynTypePath| #[trigger] m2.contains_key(k) && k.path == p && m2[k].derives@.contains(d);
            let i = choose|i: int| 0 <= i < s2.len() && (#[trigger] s2[i]).0 == k;
            assert(s0[s1.len() + i] == s2[i]);
            assert(seq_d(s0, n, p, d));
        }
    }
    lemma_list_same(types, l, reg_seq_d(s0, n), reg_both_d(dr));
}
pub proof fn lemma_maps_a(types: &PortableRegistry, dr: &DerivesRegistry, s0: Seq<(SynTypePath, Derives)>, l: Seq<(SynPath, HSet<SynAttribute>)>)
    requires exists|s1: Seq<(SynTypePath, Derives)>, s2: Seq<(SynTypePath, Derives)>|
            entries_of(s1, dr.specific_type_derives@) && entries_of(s2, dr.recursive_type_derives@) && s0 == s1 + s2,
        list_ok(types, l, reg_seq_a(s0, s0.len() as int)),
    ensures list_ok(types, l, reg_both_a(dr))
{
    let (s1, s2) = choose|s1: Seq<(SynTypePath, Derives)>, s2: Seq<(SynTypePath, Derives)>|
            entries_of(s1, dr.specific_type_derives@) && entries_of(s2, dr.recursive_type_derives@) && s0 == s1 + s2;
    let m1 = dr.specific_type_derives@; let m2 = dr.recursive_type_derives@;
    let n = s0.len() as int;
    assert forall|p: SynPath, d: SynAttribute| #[trigger] reg_both_a(dr)(p, d) <==> reg_seq_a(s0, n)(p, d) by {
        if seq_a(s0, n, p, d) {
            let j = choose|j: int| 0 <= j < n && (#[trigger] s0[j]).0.path == p && s0[j].1.attributes@.contains(d);
            if j < s1.len() { assert(s0[j] == s1[j]); assert(m1.contains_key(s1[j].0)); assert(reg_a(m1, p, d)); }
            else { let e = s2[j - s1.len()]; assert(s0[j] == e); assert(m2.contains_key(e.0)); assert(reg_a(m2, p, d)); }
        }
        if reg_a(m1, p, d) {
            let k = choose|k: SynTypePath| #[trigger] m1.contains_key(k) && k.path == p && m1[k].attributes@.contains(d);
            let i = choose|i: int| 0 <= i < s1.len() && (#[trigger] s1[i]).0 == k;
            assert(s0[i] == s1[i]);
            assert(seq_a(s0, n, p, d));
        }
        if reg_a(m2, p, d) {
            let k = choose|k: SynTypePath| #[trigger] m2.contains_key(k) && k.path == p && m2[k].attributes@.contains(d);
            let i = choose|i: int| 0 <= i < s2.len() && (#[trigger] s2[i]).0 == k;
            assert(s0[s1.len() + i] == s2[i]);
            assert(seq_a(s0, n, p, d));
        }
    }
    lemma_list_same(types, l, reg_seq_a(s0, n), reg_both_a(dr));
}

// ---- implication forms for the START of the loop bodies: an element whose path is known changes nothing, so the
// invariant for the next position is in the context however the body skips it (`if`, early `continue`, ...)
pub proof fn lemma_skip_if_known(types: &PortableRegistry, ld: Seq<(SynPath, HSet<SynPath>)>, la: Seq<(SynPath, HSet<SynAttribute>)>, s: Seq<(SynTypePath, Derives)>, n: int)
    requires 0 <= n < s.len(), list_ok(types, ld, reg_seq_d(s, n)), list_ok(types, la, reg_seq_a(s, n)),
    ensures !unknown_path(types, s[n].0.path) ==> list_ok(types, ld, reg_seq_d(s, n + 1)) && list_ok(types, la, reg_seq_a(s, n + 1)),
{
    if !unknown_path(types, s[n].0.path) {
        lemma_seq_step_d(s, n);
        lemma_seq_step_a(s, n);
        lemma_step(types, ld, ld, reg_seq_d(s, n), reg_seq_d(s, n + 1), s[n].0.path, s[n].1.derives@, false);
        lemma_step(types, la, la, reg_seq_a(s, n), reg_seq_a(s, n + 1), s[n].0.path, s[n].1.attributes@, false);
    }
}
pub proof fn lemma_subs_skip_if_known(types: &PortableRegistry, l: Seq<(SynPath, SynPath)>, s: Seq<(Vec<String>, Substitute)>, n: int)
    requires 0 <= n < s.len(), subs_seq_ok(types, l, s, n),
    ensures !unknown_key(types, key_of(s[n].0)) ==> subs_seq_ok(types, l, s, n + 1),
{
    if !unknown_key(types, key_of(s[n].0)) { lemma_subs_step(types, l, l, s, n); }
}
