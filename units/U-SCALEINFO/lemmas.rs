// ===== U-SCALEINFO: no extra vocabulary =====
