// ===== U-COMPACTAS spec vocabulary (from the property: "a struct with exactly one field that is an
// unsigned integer of at most 128 bits") =====
pub open spec fn uint128(tp: TypePath) -> bool {
    match tp.0 {
        TypePathInner::Type(TypePathType::Primitive { def }) =>
            def is U8 || def is U16 || def is U32 || def is U64 || def is U128,
        _ => false,
    }
}

pub open spec fn single_uint_field(k: CompositeIRKind) -> bool {
    match k {
        CompositeIRKind::NoFields => false,
        CompositeIRKind::Named(fs) => fs@.len() == 1 && uint128(fs@[0].1.type_path),
        CompositeIRKind::Unnamed(fs) => fs@.len() == 1 && uint128(fs@[0].type_path),
    }
}
