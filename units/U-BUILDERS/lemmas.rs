// ===== U-BUILDERS: the derive registry as a set / map ACCUMULATOR (C16, first sentence) =====
pub open spec fn dset(d: Derives) -> Set<SynPath> { d.derives@ }
pub open spec fn aset(d: Derives) -> Set<SynAttribute> { d.attributes@ }

/// what is registered for a path in one of the two maps (nothing = two empty sets)
pub open spec fn reg_d(m: Map<SynTypePath, Derives>, k: SynTypePath) -> Set<SynPath> { if m.contains_key(k) { dset(m[k]) } else { Set::empty() } }
pub open spec fn reg_a(m: Map<SynTypePath, Derives>, k: SynTypePath) -> Set<SynAttribute> { if m.contains_key(k) { aset(m[k]) } else { Set::empty() } }

/// abstract state of a DerivesRegistry: what is registered globally, and per path in the specific / recursive position
pub struct Abs {
    pub gd: Set<SynPath>, pub ga: Set<SynAttribute>,
    pub sd: spec_fn(SynTypePath) -> Set<SynPath>, pub sa: spec_fn(SynTypePath) -> Set<SynAttribute>,
    pub rd: spec_fn(SynTypePath) -> Set<SynPath>, pub ra: spec_fn(SynTypePath) -> Set<SynAttribute>,
}

pub open spec fn abs(r: DerivesRegistry) -> Abs {
    Abs {
        gd: dset(r.default_derives), ga: aset(r.default_derives),
        sd: |k: SynTypePath| reg_d(r.specific_type_derives@, k), sa: |k: SynTypePath| reg_a(r.specific_type_derives@, k),
        rd: |k: SynTypePath| reg_d(r.recursive_type_derives@, k), ra: |k: SynTypePath| reg_a(r.recursive_type_derives@, k),
    }
}

/// the four builder calls as operations on the abstract state: pointwise UNION, nothing else changes
pub enum Op {
    AllD(Set<SynPath>), AllA(Set<SynAttribute>),
    ForD(SynTypePath, Set<SynPath>, bool), ForA(SynTypePath, Set<SynAttribute>, bool),
}

pub open spec fn apply(s: Abs, op: Op) -> Abs {
    match op {
        Op::AllD(x) => Abs { gd: s.gd.union(x), ..s },
        Op::AllA(x) => Abs { ga: s.ga.union(x), ..s },
        Op::ForD(k, x, rec) => if rec { Abs { rd: |q: SynTypePath| if q == k { (s.rd)(q).union(x) } else { (s.rd)(q) }, ..s } }
                               else { Abs { sd: |q: SynTypePath| if q == k { (s.sd)(q).union(x) } else { (s.sd)(q) }, ..s } },
        Op::ForA(k, x, rec) => if rec { Abs { ra: |q: SynTypePath| if q == k { (s.ra)(q).union(x) } else { (s.ra)(q) }, ..s } }
                               else { Abs { sa: |q: SynTypePath| if q == k { (s.sa)(q).union(x) } else { (s.sa)(q) }, ..s } },
    }
}

pub open spec fn abs_eq(a: Abs, b: Abs) -> bool {
    a.gd =~= b.gd && a.ga =~= b.ga
    && (forall|k: SynTypePath| #[trigger] (a.sd)(k) =~= (b.sd)(k)) && (forall|k: SynTypePath| #[trigger] (a.sa)(k) =~= (b.sa)(k))
    && (forall|k: SynTypePath| #[trigger] (a.rd)(k) =~= (b.rd)(k)) && (forall|k: SynTypePath| #[trigger] (a.ra)(k) =~= (b.ra)(k))
}

/// "irrespective of call order": any two builder calls commute
pub proof fn lemma_ops_commute(s: Abs, p: Op, q: Op)
    ensures abs_eq(apply(apply(s, p), q), apply(apply(s, q), p))
{}

/// "... or repetition": repeating a call changes nothing
pub proof fn lemma_op_idempotent(s: Abs, p: Op)
    ensures abs_eq(apply(apply(s, p), p), apply(s, p))
{}
