// ===== U-TYPEIR spec vocabulary (C08: "each generated type carries exactly the global derives and attributes, those registered
// for its own path [after flattening] ... and the CompactAs derive if and only if one is configured and the type is a struct with
// exactly one field that is an unsigned integer of at most 128 bits") =====
pub open spec fn resolved_d(f: FlatDerivesRegistry, p: SynTypePath) -> Set<SynPath> {
    if f.specific_type_derives@.contains_key(p) { dset(f.default_derives).union(dset(f.specific_type_derives@[p])) } else { dset(f.default_derives) }
}
pub open spec fn resolved_a(f: FlatDerivesRegistry, p: SynTypePath) -> Set<SynAttribute> {
    if f.specific_type_derives@.contains_key(p) { aset(f.default_derives).union(aset(f.specific_type_derives@[p])) } else { aset(f.default_derives) }
}
pub open spec fn is_struct_or_enum(ty: Type) -> bool { ty.type_def is Composite || ty.type_def is Variant }
pub open spec fn type_ir_ok(g: TypeGenerator, ty: Type, f: FlatDerivesRegistry, ir: TypeIR) -> bool {
    &&& syn_path_of(ty) is Ok
    &&& aset(ir.derives) == resolved_a(f, syn_path_of(ty)->Ok_0)
    &&& ir.insert_codec_attributes == g.settings.insert_codec_attributes
    &&& match ir.kind {
            TypeIRKind::Struct(c) => ty.type_def is Composite
                && dset(ir.derives) == if single_uint_field(c.kind) && g.settings.compact_as_type_path is Some {
                        resolved_d(f, syn_path_of(ty)->Ok_0).insert(g.settings.compact_as_type_path->0)
                    } else { resolved_d(f, syn_path_of(ty)->Ok_0) },
            TypeIRKind::Enum(e) => ty.type_def is Variant && dset(ir.derives) == resolved_d(f, syn_path_of(ty)->Ok_0),
        }
}
