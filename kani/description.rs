// U-PRIMNAMES (serves C13 "names every primitive correctly"): loop-free, all 15 values => complete.
// The table is taken from the property: the Rust spelling of the primitive; Str is the owned
// `String`; the two 256-bit integers are spelled u256 / i256.
fn expected_name(p: &TypeDefPrimitive) -> &'static str {
    match p {
        TypeDefPrimitive::Bool => "bool",
        TypeDefPrimitive::Char => "char",
        TypeDefPrimitive::Str => "String",
        TypeDefPrimitive::U8 => "u8",
        TypeDefPrimitive::U16 => "u16",
        TypeDefPrimitive::U32 => "u32",
        TypeDefPrimitive::U64 => "u64",
        TypeDefPrimitive::U128 => "u128",
        TypeDefPrimitive::U256 => "u256",
        TypeDefPrimitive::I8 => "i8",
        TypeDefPrimitive::I16 => "i16",
        TypeDefPrimitive::I32 => "i32",
        TypeDefPrimitive::I64 => "i64",
        TypeDefPrimitive::I128 => "i128",
        TypeDefPrimitive::I256 => "i256",
    }
}

fn same(a: &str, b: &str) -> bool {
    let (a, b) = (a.as_bytes(), b.as_bytes());
    if a.len() != b.len() {
        return false;
    }
    let mut i = 0;
    while i < a.len() {
        if a[i] != b[i] {
            return false;
        }
        i += 1;
    }
    true
}

#[kani::proof]
#[kani::unwind(8)]
fn primnames_table() {
    let all = [
        TypeDefPrimitive::Bool, TypeDefPrimitive::Char, TypeDefPrimitive::Str,
        TypeDefPrimitive::U8, TypeDefPrimitive::U16, TypeDefPrimitive::U32, TypeDefPrimitive::U64,
        TypeDefPrimitive::U128, TypeDefPrimitive::U256,
        TypeDefPrimitive::I8, TypeDefPrimitive::I16, TypeDefPrimitive::I32, TypeDefPrimitive::I64,
        TypeDefPrimitive::I128, TypeDefPrimitive::I256,
    ];
    let i: usize = kani::any();
    kani::assume(i < all.len());
    let p = &all[i];
    let got = primitive_type_description(p);
    kani::cover!(i == 2, "Str arm reached");
    kani::cover!(i == 14, "I256 arm reached");
    assert!(same(got, expected_name(p)), "primitive_type_description names the primitive");
}

// The same table for the "refer to a type by name" path (type_name_with_type_params, Primitive arm):
// every primitive used as a generic argument / element of a named type is spelled like the table above.
// Loop-free over all 15 values => complete for that arm; the registry is not consulted on this path.
#[kani::proof]
#[kani::unwind(8)]
fn primnames_in_type_name() {
    let all = [
        TypeDefPrimitive::Bool, TypeDefPrimitive::Char, TypeDefPrimitive::Str,
        TypeDefPrimitive::U8, TypeDefPrimitive::U16, TypeDefPrimitive::U32, TypeDefPrimitive::U64,
        TypeDefPrimitive::U128, TypeDefPrimitive::U256,
        TypeDefPrimitive::I8, TypeDefPrimitive::I16, TypeDefPrimitive::I32, TypeDefPrimitive::I64,
        TypeDefPrimitive::I128, TypeDefPrimitive::I256,
    ];
    let i: usize = kani::any();
    kani::assume(i < all.len());
    let ty: Type<PortableForm> = Type {
        path: scale_info::Path { segments: Vec::new() },
        type_params: Vec::new(),
        type_def: TypeDef::Primitive(all[i].clone()),
        docs: Vec::new(),
    };
    let reg = PortableRegistry { types: Vec::new() };
    let got = type_name_with_type_params(&ty, &reg);
    kani::cover!(i == 2, "Str arm reached");
    assert!(same(&got, expected_name(&all[i])), "a primitive is referred to by its table name");
    core::mem::forget(got);
    core::mem::forget(ty);
    core::mem::forget(reg);
}
