// U-PRIMEX (serves C12 "primitive examples by width").
// The RNG is fully symbolic: every call returns an unconstrained value, so each postcondition is
// proved for EVERY output stream of EVERY generator -- not for ChaCha8 and a sample of seeds.
// Postcondition per arm = scale-value's acceptance condition for that primitive type.
struct SymRng {
    /// number of further calls answered symbolically; afterwards 0 is returned (only the
    /// bounded Char/Str harnesses set a finite budget; usize::MAX = never exhausted)
    budget: usize,
}

impl rand::RngCore for SymRng {
    fn next_u32(&mut self) -> u32 {
        if self.budget == 0 { return 0; }
        if self.budget != usize::MAX { self.budget -= 1; }
        kani::any()
    }
    fn next_u64(&mut self) -> u64 {
        if self.budget == 0 { return 0; }
        if self.budget != usize::MAX { self.budget -= 1; }
        kani::any()
    }
    fn fill_bytes(&mut self, dest: &mut [u8]) {
        for b in dest.iter_mut() {
            *b = kani::any();
        }
    }
    fn try_fill_bytes(&mut self, dest: &mut [u8]) -> Result<(), rand::Error> {
        self.fill_bytes(dest);
        Ok(())
    }
}

/// What came out, reduced to what scale-encode looks at.
#[derive(Clone, Copy)]
enum Out { Bool, Char, Str, U(u128), I(i128), U256, I256, NotPrimitive }

fn prim_of(p: TypeDefPrimitive, budget: usize) -> Out {
    let mut rng = SymRng { budget };
    let v = primitive_type_def_example(&p, &mut rng);
    let out = match &v.value {
        ValueDef::Primitive(Primitive::Bool(_)) => Out::Bool,
        ValueDef::Primitive(Primitive::Char(_)) => Out::Char,
        ValueDef::Primitive(Primitive::String(_)) => Out::Str,
        ValueDef::Primitive(Primitive::U128(x)) => Out::U(*x),
        ValueDef::Primitive(Primitive::I128(x)) => Out::I(*x),
        ValueDef::Primitive(Primitive::U256(_)) => Out::U256,
        ValueDef::Primitive(Primitive::I256(_)) => Out::I256,
        _ => Out::NotPrimitive,
    };
    // Value<()> has recursive drop glue (Composite -> Vec<Value>); do not let CBMC unwind it
    core::mem::forget(v);
    out
}

fn ubits(p: &TypeDefPrimitive) -> Option<u32> {
    match p {
        TypeDefPrimitive::U8 => Some(8), TypeDefPrimitive::U16 => Some(16), TypeDefPrimitive::U32 => Some(32),
        TypeDefPrimitive::U64 => Some(64), TypeDefPrimitive::U128 => Some(128), _ => None,
    }
}
fn ibits(p: &TypeDefPrimitive) -> Option<u32> {
    match p {
        TypeDefPrimitive::I8 => Some(8), TypeDefPrimitive::I16 => Some(16), TypeDefPrimitive::I32 => Some(32),
        TypeDefPrimitive::I64 => Some(64), TypeDefPrimitive::I128 => Some(128), _ => None,
    }
}

/// ASSUMED CONTRACT ON A DEPENDENCY (transcribed from scale-value 0.18 `encode_primitive` and
/// scale-encode 0.10 `impls/mod.rs`): does a scale-value primitive encode against a registry type
/// that is the primitive `target`?
///   bool -> only Primitive::Bool;  str -> only Primitive::Str;
///   u128/i128 values -> `try_num::<T>` against the integer primitives U8..U128 / I8..I128 (must fit);
///     every other target, INCLUDING `Char`, is `wrong_shape_err`;
///   char values are encoded "like u32", i.e. through the number path above -> rejected by a `Char` target;
///   [u8; 32] (U256 / I256 values) are encoded as arrays -> rejected by every primitive target.
fn accepts(target: &TypeDefPrimitive, v: Out) -> bool {
    match v {
        Out::Bool => matches!(target, TypeDefPrimitive::Bool),
        Out::Str => matches!(target, TypeDefPrimitive::Str),
        Out::U(x) => {
            if let Some(b) = ubits(target) { b == 128 || x < (1u128 << b) }
            else if let Some(b) = ibits(target) { x < (1u128 << (b - 1)) }
            else { false }
        }
        Out::I(x) => {
            if let Some(b) = ibits(target) { b == 128 || (x >= -(1i128 << (b - 1)) && x < (1i128 << (b - 1))) }
            else if let Some(b) = ubits(target) { x >= 0 && (b == 128 || (x as u128) < (1u128 << b)) }
            else { false }
        }
        // a char is a u32 <= 0x10FFFF for the number path; it never meets a `Char` target successfully
        Out::Char => match (ubits(target), ibits(target)) { (Some(b), _) => b >= 32, (_, Some(b)) => b >= 32, _ => false },
        Out::U256 | Out::I256 | Out::NotPrimitive => false,
    }
}

macro_rules! arm {
    ($name:ident, $prim:ident, $unwind:expr, $budget:expr) => {
        #[kani::proof]
        #[kani::unwind($unwind)]
        fn $name() {
            let out = prim_of(TypeDefPrimitive::$prim, $budget);
            kani::cover!(true, "arm reached");
            assert!(accepts(&TypeDefPrimitive::$prim, out), "the example value encodes against its own primitive type");
        }
    };
}
arm!(primex_bool, Bool, 2, usize::MAX);
arm!(primex_u8, U8, 2, usize::MAX);
arm!(primex_u16, U16, 2, usize::MAX);
arm!(primex_u32, U32, 2, usize::MAX);
arm!(primex_u64, U64, 2, usize::MAX);
arm!(primex_u128, U128, 2, usize::MAX);
arm!(primex_i8, I8, 2, usize::MAX);
arm!(primex_i16, I16, 2, usize::MAX);
arm!(primex_i32, I32, 2, usize::MAX);
arm!(primex_i64, I64, 2, usize::MAX);
arm!(primex_i128, I128, 2, usize::MAX);
// 256-bit arms: `rng.gen::<[u8; 32]>()` fills 32 bytes -- a constant trip count, unrolled completely
// (unwinding assertions on) => complete.
arm!(primex_u256, U256, 34, usize::MAX);
arm!(primex_i256, I256, 34, usize::MAX);
// Char / Str go through SliceRandom::choose -> uniform sampling with a rejection loop.
// BOUNDED: only streams that reject fewer than 8 times are explored (budget 7, then 0 is drawn,
// which is always accepted).
arm!(primex_char_bounded, Char, 10, 7);
arm!(primex_str_bounded, Str, 10, 7);
