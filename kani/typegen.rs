// Kani harnesses on the REAL scale-typegen crate (cfg(kani) hook in typegen/src/lib.rs).
// Nothing here may statically reach proc_macro2 / syn constructors (Kani compiler ICE, DESIGN 2.2).
extern crate alloc;
use crate::typegen::ir::type_ir::{CompositeFieldIR, CompositeIRKind};
use crate::typegen::type_path::{TypePath, TypePathType};
use crate::typegen::validation::registry_contains_type_path;
use crate::utils::sanity_pass;
use crate::TypegenError;
use scale_info::{form::PortableForm, Path, PortableRegistry, PortableType, Type, TypeDef, TypeDefPrimitive};

fn stub_format(_args: core::fmt::Arguments<'_>) -> alloc::string::String {
    alloc::string::String::new()
}

fn prim_ty(segments: Vec<String>) -> Type<PortableForm> {
    Type {
        path: Path { segments },
        type_params: Vec::new(),
        type_def: TypeDef::Primitive(TypeDefPrimitive::U8),
        docs: Vec::new(),
    }
}

const PRIMS: [TypeDefPrimitive; 15] = [
    TypeDefPrimitive::Bool, TypeDefPrimitive::Char, TypeDefPrimitive::Str,
    TypeDefPrimitive::U8, TypeDefPrimitive::U16, TypeDefPrimitive::U32, TypeDefPrimitive::U64,
    TypeDefPrimitive::U128, TypeDefPrimitive::U256,
    TypeDefPrimitive::I8, TypeDefPrimitive::I16, TypeDefPrimitive::I32, TypeDefPrimitive::I64,
    TypeDefPrimitive::I128, TypeDefPrimitive::I256,
];

fn is_uint128(i: usize) -> bool {
    // U8, U16, U32, U64, U128 are entries 3..=7 of PRIMS
    i >= 3 && i <= 7
}

// ---------------------------------------------------------------------------------------------
// U-SANITY on the UNMODIFIED function (compensates extraction rule R5). BOUNDED: N <= 4 entries.
fn sanity_n(n: usize) {
    let mut ids = [0u32; 4];
    let mut types = Vec::new();
    let mut i = 0;
    while i < n {
        ids[i] = kani::any();
        types.push(PortableType { id: ids[i], ty: prim_ty(Vec::new()) });
        i += 1;
    }
    let reg = PortableRegistry { types };
    let r = sanity_pass(&reg);
    let mut consistent = true;
    let mut j = 0;
    while j < n {
        if ids[j] != j as u32 { consistent = false; }
        j += 1;
    }
    match &r {
        Ok(()) => {
            kani::cover!(n > 0, "Ok reachable on a non-empty registry");
            assert!(consistent, "Ok only if every id equals its position");
        }
        Err(TypegenError::RegistryTypeIdsInvalid { given_ty_id, expected_ty_id, .. }) => {
            kani::cover!(true, "id-mismatch error reachable");
            assert!(!consistent, "error only if some id differs from its position");
            let e = *expected_ty_id as usize;
            assert!(e < n && ids[e] == *given_ty_id && *given_ty_id != *expected_ty_id, "reported pair is a genuine mismatch");
        }
        Err(_) => assert!(false, "only the id-mismatch error may be returned"),
    }
    core::mem::forget(r);
    core::mem::forget(reg);
}

#[kani::proof]
#[kani::unwind(6)]
#[kani::stub(alloc::fmt::format, stub_format)]
fn sanity_pass_upto4() {
    let n: usize = kani::any();
    kani::assume(n <= 4);
    sanity_n(n);
}

// ---------------------------------------------------------------------------------------------
// U-COMPACTAS cross-check on the real crate. Complete in the TypePathType dimension that is
// constructible without syn/proc_macro2 (Primitive x15, Vec, Array, Tuple); bounded in field count (<= 3).
fn mk_path(kind: u8, prim: usize) -> TypePath {
    match kind {
        0 => TypePath::from_type(TypePathType::Primitive { def: PRIMS[prim].clone() }),
        1 => TypePath::from_type(TypePathType::Vec { of: Box::new(TypePath::from_type(TypePathType::Primitive { def: PRIMS[prim].clone() })) }),
        2 => TypePath::from_type(TypePathType::Array { len: 1, of: Box::new(TypePath::from_type(TypePathType::Primitive { def: PRIMS[prim].clone() })) }),
        _ => TypePath::from_type(TypePathType::Tuple { elements: Vec::new() }),
    }
}

#[kani::proof]
#[kani::unwind(5)]
fn uint_predicate_table() {
    let kind: u8 = kani::any();
    kani::assume(kind < 4);
    let prim: usize = kani::any();
    kani::assume(prim < 15);
    let p = mk_path(kind, prim);
    let got = p.is_uint_up_to_u128();
    core::mem::forget(p);
    kani::cover!(got, "true reachable");
    kani::cover!(!got && kind == 0, "false reachable on a primitive");
    assert!(got == (kind == 0 && is_uint128(prim)), "is_uint_up_to_u128 <=> concrete unsigned primitive of at most 128 bits");
}

#[kani::proof]
#[kani::unwind(6)]
fn compact_as_unnamed_upto3() {
    let n: usize = kani::any();
    kani::assume(n <= 3);
    let kind: u8 = kani::any();
    kani::assume(kind < 4);
    let prim: usize = kani::any();
    kani::assume(prim < 15);
    let composite = if n == 0 && kani::any() {
        CompositeIRKind::NoFields
    } else {
        let mut v = Vec::new();
        let mut i = 0;
        while i < n {
            // the first field is the symbolic one, the others are u8 (eligible on their own)
            let tp = if i == 0 { mk_path(kind, prim) } else { mk_path(0, 3) };
            v.push(CompositeFieldIR::new(tp, false, false));
            i += 1;
        }
        CompositeIRKind::Unnamed(v)
    };
    let got = composite.could_derive_as_compact();
    core::mem::forget(composite);
    kani::cover!(got, "eligible reachable");
    kani::cover!(!got && n == 2, "two fields reachable");
    assert!(got == (n == 1 && kind == 0 && is_uint128(prim)), "CompactAs eligibility <=> exactly one field, unsigned primitive <= 128 bits");
}

// ---------------------------------------------------------------------------------------------
// U-CONTAINS: registry_contains_type_path. BOUNDED: <= 3 types, paths of <= 2 segments over the pool {"a","b","ab"}.
fn seg(i: u8) -> String {
    match i { 0 => "a".to_string(), 1 => "b".to_string(), _ => "ab".to_string() }
}
fn sym_path(pool: u8, maxlen: u8) -> (Vec<String>, [u8; 3]) {
    let len: u8 = kani::any();
    kani::assume(len <= maxlen);
    let s0: u8 = kani::any();
    let s1: u8 = kani::any();
    kani::assume(s0 < pool && s1 < pool);
    let mut v = Vec::new();
    if len >= 1 { v.push(seg(s0)); }
    if len >= 2 { v.push(seg(s1)); }
    (v, [len, if len >= 1 { s0 } else { 0 }, if len >= 2 { s1 } else { 0 }])
}

fn contains_n(maxn: usize, pool: u8, maxlen: u8) {
    let n: usize = kani::any();
    kani::assume(n <= maxn);
    let mut codes = [[0u8; 3]; 3];
    let mut types = Vec::new();
    let mut i = 0;
    while i < n {
        let (p, c) = sym_path(pool, maxlen);
        codes[i] = c;
        types.push(PortableType { id: i as u32, ty: prim_ty(p) });
        i += 1;
    }
    let reg = PortableRegistry { types };
    let (q, qc) = sym_path(pool, maxlen);
    let got = registry_contains_type_path(&reg, &q);
    let mut expect = false;
    let mut j = 0;
    while j < n {
        if codes[j] == qc { expect = true; }
        j += 1;
    }
    kani::cover!(got, "member reachable");
    kani::cover!(!got && n > 0, "non-member reachable");
    assert!(got == expect, "registry_contains_type_path <=> some registry type has exactly this path");
    core::mem::forget(reg);
    core::mem::forget(q);
}

// BOUNDED cross-check of the std contracts assumed by the Verus unit U-CONTAINS, on the UNMODIFIED function:
// <= 1 registry type, paths of <= 1 segment over the pool {"a","b"}.  (~11 min: String/Vec<String> equality is
// expensive under CBMC; larger bounds of the same harness ran 12 min (n<=2, n<=3) -- thorough tier only.)
#[kani::proof]
#[kani::unwind(5)]
fn contains_type_path_n1() {
    contains_n(1, 2, 1);
}

// BOUNDED (concrete catalogue, no symbolic data): the UNMODIFIED registry_contains_type_path on one fixed
// registry {a::b, c} against 7 fixed queries that separate exact equality from prefix / suffix / last-segment /
// length-only comparisons.  A stand-in for the cases where the Verus unit loses its anchor.
#[kani::proof]
#[kani::unwind(9)]
fn contains_type_path_catalogue() {
    let reg = PortableRegistry { types: vec![
        PortableType { id: 0, ty: prim_ty(vec!["a".to_string(), "b".to_string()]) },
        PortableType { id: 1, ty: prim_ty(vec!["c".to_string()]) },
    ] };
    let q = |v: &[&str]| -> Vec<String> { v.iter().map(|s| s.to_string()).collect() };
    let cases: [(Vec<String>, bool); 7] = [
        (q(&["a", "b"]), true), (q(&["c"]), true), (q(&["b"]), false), (q(&["a"]), false),
        (q(&["x", "a", "b"]), false), (q(&["a", "c"]), false), (q(&[]), false),
    ];
    let mut i = 0;
    while i < 7 {
        let got = registry_contains_type_path(&reg, &cases[i].0);
        assert!(got == cases[i].1, "registry_contains_type_path <=> some registry type has exactly this path");
        i += 1;
    }
    kani::cover!(true, "catalogue executed");
    core::mem::forget(reg);
    core::mem::forget(cases);
}

// Second concrete catalogue: longer paths, shared last segments, permutations, an underscore that a `join("_")`
// comparison would confuse.
#[kani::proof]
#[kani::unwind(9)]
fn contains_type_path_catalogue2() {
    let reg = PortableRegistry { types: vec![
        PortableType { id: 0, ty: prim_ty(vec!["a".to_string(), "m".to_string(), "b".to_string()]) },
        PortableType { id: 1, ty: prim_ty(vec!["p".to_string(), "k".to_string()]) },
        PortableType { id: 2, ty: prim_ty(vec!["q".to_string(), "k".to_string()]) },
        PortableType { id: 3, ty: prim_ty(vec!["a_b".to_string(), "c".to_string()]) },
    ] };
    let q = |v: &[&str]| -> Vec<String> { v.iter().map(|s| s.to_string()).collect() };
    let cases: [(Vec<String>, bool); 7] = [
        (q(&["a", "x", "b"]), false), (q(&["q", "k"]), true), (q(&["k", "q"]), false), (q(&["a", "b_c"]), false),
        (q(&["a", "m", "b"]), true), (q(&["a", "m"]), false), (q(&["m", "b"]), false),
    ];
    let mut i = 0;
    while i < 7 {
        let got = registry_contains_type_path(&reg, &cases[i].0);
        assert!(got == cases[i].1, "registry_contains_type_path <=> some registry type has exactly this path");
        i += 1;
    }
    kani::cover!(true, "catalogue executed");
    core::mem::forget(reg);
    core::mem::forget(cases);
}
