//! Concrete searches for the non-formatter units, all through the PUBLIC API of the real crates.
use crate::reg::*;
use scale_info::{PortableRegistry, TypeDefPrimitive};
use scale_typegen::typegen::ir::type_ir::{CompositeFieldIR, CompositeIRKind};
use scale_typegen::typegen::type_path::{TypePath, TypePathType};
use scale_typegen::typegen::validation::registry_contains_type_path;
use scale_typegen::{DerivesRegistry, TypeGenerator, TypeGeneratorSettings, TypegenError};
use std::collections::BTreeSet;
use std::panic;

fn esc(s: &str) -> String { s.replace('\\', "\\\\").replace('"', "\\\"").replace('\n', "\\n") }
fn report(found: Option<(String, String)>, tried: usize) -> i32 {
    match found {
        Some((input, why)) => { println!("{{\"found\":true,\"tried\":{tried},\"input\":\"{}\",\"violations\":[\"{}\"]}}", esc(&input), esc(&why)); 1 }
        None => { println!("{{\"found\":false,\"tried\":{tried}}}"); 0 }
    }
}

// ---------------------------------------------------------------------------------------------
// C08 / U-REACH: one minimal registry per edge kind; which types carry a recursive derive?
fn paths_with_derive(reg: &PortableRegistry, root: &str) -> Result<BTreeSet<String>, String> {
    let mut settings = TypeGeneratorSettings::default();
    settings.compact_type_path = Some(syn::parse_quote!(::codec::Compact));
    settings.decoded_bits_type_path = Some(syn::parse_quote!(::bits::DecodedBits));
    let mut d = DerivesRegistry::new();
    d.add_derives_for(syn::parse_str(root).unwrap(), [syn::parse_quote!(Marker)], true);
    settings.derives = d;
    let gen = TypeGenerator::new(reg, &settings);
    let m = gen.generate_types_mod().map_err(|e| format!("{e}"))?;
    let marker: syn::Path = syn::parse_quote!(Marker);
    let mut out = BTreeSet::new();
    fn walk(m: &scale_typegen::typegen::ir::module_ir::ModuleIR, marker: &syn::Path, out: &mut BTreeSet<String>) {
        for (p, (_, ir)) in m.types.iter() {
            if ir.derives.derives().contains(marker) { out.insert(p.segments.join("::")); }
        }
        for c in m.children.values() { walk(c, marker, out); }
    }
    walk(&m, &marker, &mut out);
    Ok(out)
}

pub fn c08_reach() -> i32 {
    use TypeDefPrimitive as P;
    // every case: (name, registry, expected set of struct/enum paths carrying the derive)
    let leaf = |p: &str| ty(p, vec![], composite(vec![field(Some("x"), 0, Some("u8"))]));
    let u8t = || ty("", vec![], prim(P::U8));
    let mut cases: Vec<(&str, PortableRegistry, Vec<&str>)> = vec![];
    // ids: 0 = u8, 1 = m::Leaf, 2 = wrapper (seq/array/...), 3 = m::Root, 4 = m::Other (unreachable)
    cases.push(("field", registry(vec![u8t(), leaf("m::Leaf"), u8t(), ty("m::Root", vec![], composite(vec![field(Some("a"), 1, Some("Leaf"))])), leaf("m::Other")]), vec!["m::Leaf", "m::Root"]));
    cases.push(("unnamed field", registry(vec![u8t(), leaf("m::Leaf"), u8t(), ty("m::Root", vec![], composite(vec![field(None, 1, Some("Leaf"))])), leaf("m::Other")]), vec!["m::Leaf", "m::Root"]));
    cases.push(("variant field", registry(vec![u8t(), leaf("m::Leaf"), u8t(), ty("m::Root", vec![], variant(vec![("A", 0, vec![]), ("B", 1, vec![field(Some("a"), 1, Some("Leaf"))])])), leaf("m::Other")]), vec!["m::Leaf", "m::Root"]));
    cases.push(("second variant, second field", registry(vec![u8t(), leaf("m::Leaf"), u8t(), ty("m::Root", vec![], variant(vec![("A", 0, vec![field(None, 0, Some("u8"))]), ("B", 1, vec![field(None, 0, Some("u8")), field(None, 1, Some("Leaf"))])])), leaf("m::Other")]), vec!["m::Leaf", "m::Root"]));
    cases.push(("type parameter", registry(vec![u8t(), leaf("m::Leaf"), u8t(), ty("m::Root", vec![("T", Some(1))], composite(vec![field(Some("a"), 0, Some("u8"))])), leaf("m::Other")]), vec!["m::Leaf", "m::Root"]));
    cases.push(("sequence", registry(vec![u8t(), leaf("m::Leaf"), ty("", vec![], seq(1)), ty("m::Root", vec![], composite(vec![field(Some("a"), 2, Some("Vec<Leaf>"))])), leaf("m::Other")]), vec!["m::Leaf", "m::Root"]));
    cases.push(("array", registry(vec![u8t(), leaf("m::Leaf"), ty("", vec![], arr(2, 1)), ty("m::Root", vec![], composite(vec![field(Some("a"), 2, Some("[Leaf; 2]"))])), leaf("m::Other")]), vec!["m::Leaf", "m::Root"]));
    cases.push(("tuple", registry(vec![u8t(), leaf("m::Leaf"), ty("", vec![], tuple(vec![0, 1])), ty("m::Root", vec![], composite(vec![field(Some("a"), 2, Some("(u8, Leaf)"))])), leaf("m::Other")]), vec!["m::Leaf", "m::Root"]));
    cases.push(("tuple first", registry(vec![u8t(), leaf("m::Leaf"), ty("", vec![], tuple(vec![1, 0])), ty("m::Root", vec![], composite(vec![field(Some("a"), 2, Some("(Leaf, u8)"))])), leaf("m::Other")]), vec!["m::Leaf", "m::Root"]));
    cases.push(("compact", registry(vec![u8t(), leaf("m::Leaf"), ty("", vec![], compact(1)), ty("m::Root", vec![], composite(vec![field(Some("a"), 2, Some("Compact<Leaf>"))])), leaf("m::Other")]), vec!["m::Leaf", "m::Root"]));
    // cycle: Root -> Vec<Node>; Node -> Vec<Node>, Leaf
    cases.push(("cycle", registry(vec![u8t(), leaf("m::Leaf"), ty("", vec![], seq(5)), ty("m::Root", vec![], composite(vec![field(Some("a"), 2, Some("Vec<Node>"))])), leaf("m::Other"),
        ty("m::Node", vec![], composite(vec![field(Some("kids"), 2, Some("Vec<Node>")), field(Some("leaf"), 1, Some("Leaf"))]))]), vec!["m::Leaf", "m::Node", "m::Root"]));
    // two-level nesting through a generic: Root -> Wrap<Leaf> (param + field)
    cases.push(("nested generic", registry(vec![u8t(), leaf("m::Leaf"), u8t(), ty("m::Root", vec![], composite(vec![field(Some("a"), 5, Some("Wrap<Leaf>"))])), leaf("m::Other"),
        ty("m::Wrap", vec![("T", Some(1))], composite(vec![field(Some("inner"), 1, Some("T"))]))]), vec!["m::Leaf", "m::Root", "m::Wrap"]));
    // a skipped type parameter (no type id) must not stop the traversal of the fields
    cases.push(("skipped type parameter", registry(vec![u8t(), leaf("m::Leaf"), u8t(), ty("m::Root", vec![], composite(vec![field(Some("a"), 5, Some("Mid<S>"))])), leaf("m::Other"),
        ty("m::Mid", vec![("S", None)], composite(vec![field(Some("inner"), 1, Some("Leaf"))]))]), vec!["m::Leaf", "m::Mid", "m::Root"]));
    // a tuple element whose own type has generated types below it
    cases.push(("tuple of struct with children", registry(vec![u8t(), leaf("m::Leaf"), ty("", vec![], tuple(vec![5, 0])), ty("m::Root", vec![], composite(vec![field(Some("a"), 2, Some("(Outer, u8)"))])), leaf("m::Other"),
        ty("m::Outer", vec![], composite(vec![field(Some("inner"), 1, Some("Leaf"))]))]), vec!["m::Leaf", "m::Outer", "m::Root"]));
    cases.push(("empty array", registry(vec![u8t(), leaf("m::Leaf"), ty("", vec![], arr(0, 1)), ty("m::Root", vec![], composite(vec![field(Some("a"), 2, Some("[Leaf; 0]"))])), leaf("m::Other")]), vec!["m::Leaf", "m::Root"]));
    // a variant whose first field is already visited and whose second field is reachable nowhere else
    cases.push(("variant: visited field before a new one", registry(vec![u8t(), leaf("m::Leaf"), u8t(), ty("m::Root", vec![], composite(vec![field(Some("first"), 1, Some("Leaf")), field(Some("second"), 5, Some("Choice"))])), leaf("m::Other"),
        ty("m::Choice", vec![], variant(vec![("V", 0, vec![field(Some("a"), 1, Some("Leaf")), field(Some("b"), 6, Some("OnlyHere"))])])), leaf("m::OnlyHere")]), vec!["m::Choice", "m::Leaf", "m::OnlyHere", "m::Root"]));
    // self-referential list: Cons(Box<List>, Item)
    cases.push(("self-referential variant", registry(vec![u8t(), leaf("m::Leaf"), u8t(), ty("m::Root", vec![], variant(vec![("Nil", 0, vec![]), ("Cons", 1, vec![field(None, 3, Some("Box<Root>")), field(None, 1, Some("Leaf"))])])), leaf("m::Other")]), vec!["m::Leaf", "m::Root"]));
    let mut tried = 0;
    let mut found = None;
    for (name, reg, expect) in cases {
        tried += 1;
        let want: BTreeSet<String> = expect.iter().map(|s| s.to_string()).collect();
        let r = panic::catch_unwind(|| paths_with_derive(&reg, "m::Root"));
        let why = match r {
            Err(_) => Some("panic (stack overflow would abort instead)".to_string()),
            Ok(Err(e)) => Some(format!("generation failed: {e}")),
            Ok(Ok(got)) if got != want => Some(format!("recursive derive on m::Root reached {:?}, expected {:?}", got, want)),
            _ => None,
        };
        if let Some(w) = why { found = Some((format!("catalogue registry `{name}`"), w)); break; }
    }
    report(found, tried)
}

// ---------------------------------------------------------------------------------------------
// C08 / U-COMPACTAS through the public constructors.
pub fn c08_compactas() -> i32 {
    let mut tried = 0;
    let mut found = None;
    let mk = |k: usize, p: usize| -> TypePath {
        let prim = || TypePath::from_type(TypePathType::Primitive { def: PRIMS[p].clone() });
        match k {
            0 => prim(),
            1 => TypePath::from_type(TypePathType::Vec { of: Box::new(prim()) }),
            2 => TypePath::from_type(TypePathType::Array { len: 1, of: Box::new(prim()) }),
            3 => TypePath::from_type(TypePathType::Tuple { elements: vec![prim()] }),
            4 => TypePath::from_type(TypePathType::Compact { inner: Box::new(prim()), is_field: true, compact_type_path: syn::parse_quote!(C) }),
            5 => TypePath::from_syn_path(syn::parse_quote!(a::B)),
            _ => TypePath::from_type(TypePathType::BitVec { bit_order_type: Box::new(prim()), bit_store_type: Box::new(prim()), decoded_bits_type_path: syn::parse_quote!(D) }),
        }
    };
    'o: for k in 0..7 {
        for p in 0..15 {
            let uint = k == 0 && (3..=7).contains(&p);
            tried += 1;
            if mk(k, p).is_uint_up_to_u128() != uint {
                found = Some((format!("TypePath kind {k} over primitive {:?}", PRIMS[p]), format!("is_uint_up_to_u128 returned {}", !uint)));
                break 'o;
            }
            for n in 0..4usize {
                for named in [false, true] { for boxed in [false, true] { for compact in [false, true] {
                    let kind = if n == 0 { CompositeIRKind::NoFields } else if named {
                        CompositeIRKind::Named((0..n).map(|i| (syn::parse_str(&format!("f{i}")).unwrap(), CompositeFieldIR::new(if i == 0 { mk(k, p) } else { mk(0, 3) }, compact, boxed))).collect())
                    } else {
                        CompositeIRKind::Unnamed((0..n).map(|i| CompositeFieldIR::new(if i == 0 { mk(k, p) } else { mk(0, 3) }, compact, boxed)).collect())
                    };
                    tried += 1;
                    let want = n == 1 && uint;
                    if kind.could_derive_as_compact() != want {
                        found = Some((format!("{} composite with {n} field(s) (is_boxed={boxed}, is_compact={compact}), first of kind {k} over {:?}", if named { "named" } else { "unnamed" }, PRIMS[p]), format!("could_derive_as_compact returned {}", !want)));
                        break 'o;
                    }
                } } }
            }
        }
    }
    report(found, tried)
}

// ---------------------------------------------------------------------------------------------
// C10 / U-SANITY + U-RESOLVE
pub fn c10_sanity() -> i32 {
    let mut tried = 0;
    let mut found = None;
    'o: for n in 0..=4usize {
        let total = 5usize.pow(n as u32);
        for code in 0..total {
            let mut c = code;
            let ids: Vec<u32> = (0..n).map(|_| { let d = (c % 5) as u32; c /= 5; d }).collect();
            // entry 0 is path-less (a primitive), the others are namespaced structs
            let mut reg = registry((0..n).map(|i| if i == 0 { ty("", vec![], prim(TypeDefPrimitive::U8)) } else { ty(&format!("m::T{i}"), vec![], composite(vec![])) }).collect());
            for (i, id) in ids.iter().enumerate() { reg.types[i].id = *id; }
            let consistent = ids.iter().enumerate().all(|(i, id)| *id == i as u32);
            tried += 1;
            let settings = TypeGeneratorSettings::default();
            let r1 = panic::catch_unwind(|| TypeGenerator::new(&reg, &settings).generate_types_mod().map(|_| ()));
            let mut reg2 = reg.clone();
            let r2 = panic::catch_unwind(move || scale_typegen::utils::ensure_unique_type_paths(&mut reg2));
            for (which, r) in [("generate_types_mod", r1), ("ensure_unique_type_paths", r2)] {
                let why = match r {
                    Err(_) => Some("panic".to_string()),
                    Ok(Ok(())) if !consistent => Some("accepted a registry whose ids do not equal their positions".into()),
                    Ok(Err(TypegenError::RegistryTypeIdsInvalid { given_ty_id, expected_ty_id, .. })) => {
                        if consistent { Some("id-mismatch error on a consistent registry".into()) }
                        else if !((expected_ty_id as usize) < n && ids[expected_ty_id as usize] == given_ty_id && given_ty_id != expected_ty_id) { Some(format!("error names ({given_ty_id}, {expected_ty_id}) which is not a mismatch")) } else { None }
                    }
                    Ok(Err(e)) if !consistent => Some(format!("wrong error kind: {e}")),
                    _ => None,
                };
                if let Some(w) = why { found = Some((format!("{which} on registry with entry ids {ids:?}"), w)); break 'o; }
            }
        }
    }
    report(found, tried)
}

pub fn c10_resolve() -> i32 {
    panic::set_hook(Box::new(|_| {}));
    let mut tried = 0;
    let mut found = None;
    'o: for n in 0..4usize {
        let reg = registry((0..n).map(|i| ty(&format!("m::T{i}"), vec![], composite(vec![]))).collect());
        let settings = TypeGeneratorSettings::default();
        let gen = TypeGenerator::new(&reg, &settings);
        for id in [0u32, 1, 2, 3, 4, 7, u32::MAX] {
            tried += 1;
            let r = panic::catch_unwind(panic::AssertUnwindSafe(|| gen.resolve_type(id)));
            let why = match r {
                Err(_) => Some("panic".to_string()),
                Ok(Ok(t)) if (id as usize) < n => if std::ptr::eq(t, &reg.types[id as usize].ty) { None } else { Some("resolved to a different entry".to_string()) },
                Ok(Ok(_)) => Some("resolved a missing id".into()),
                Ok(Err(TypegenError::TypeNotFound(x))) if (id as usize) >= n => if x == id { None } else { Some(format!("TypeNotFound names {x}")) },
                Ok(Err(e)) => Some(format!("unexpected error {e}")),
            };
            if let Some(w) = why { found = Some((format!("resolve_type({id}) on a registry of {n} types"), w)); break 'o; }
        }
    }
    report(found, tried)
}

// ---------------------------------------------------------------------------------------------
// C11 / U-CONTAINS
pub fn c11_contains() -> i32 {
    let pool = ["a", "b", "ab", "c"];
    let mut paths: Vec<Vec<String>> = vec![vec![]];
    for a in pool { paths.push(vec![a.to_string()]); for b in pool { paths.push(vec![a.to_string(), b.to_string()]); for c in ["a", "ab"] { paths.push(vec![a.to_string(), b.to_string(), c.to_string()]); } } }
    let mut tried = 0;
    let mut found = None;
    let np = paths.len();
    'o: for n in 0..=2usize {
        for code in 0..np.pow(n as u32) {
            let mut c = code;
            let sel: Vec<&Vec<String>> = (0..n).map(|_| { let d = c % np; c /= np; &paths[d] }).collect();
            let reg = registry(sel.iter().map(|p| ty(&p.join("::"), vec![], composite(vec![]))).collect());
            for q in &paths {
                tried += 1;
                let want = sel.iter().any(|p| *p == q);
                if registry_contains_type_path(&reg, q) != want {
                    found = Some((format!("registry paths {sel:?}, query {q:?}"), format!("registry_contains_type_path returned {}", !want)));
                    break 'o;
                }
            }
        }
    }
    report(found, tried)
}

// ---------------------------------------------------------------------------------------------
// C12 / U-PRIMEX and C13 / U-PRIMNAMES through the public API of the description crate
pub fn c12_primex(seeds: u64, only: Option<usize>) -> i32 {
    let mut tried = 0;
    let mut found = None;
    'o: for (i, p) in PRIMS.iter().enumerate() {
        if only.is_some() && only != Some(i) { continue; }
        let reg = registry(vec![ty("", vec![], prim(p.clone()))]);
        for seed in 0..seeds {
            tried += 1;
            let r = panic::catch_unwind(|| scale_typegen_description::scale_value_from_seed(0, &reg, seed));
            let why = match r {
                Err(_) => Some("panic".to_string()),
                Ok(Err(e)) => Some(format!("no value for a primitive type: {e}")),
                Ok(Ok(v)) => {
                    let mut bytes = vec![];
                    match scale_value::scale::encode_as_type(&v, 0u32, &reg, &mut bytes) {
                        Err(e) => Some(format!("example {v:?} does not encode against its own type: {e}")),
                        Ok(()) => None,
                    }
                }
            };
            if let Some(w) = why { found = Some((format!("primitive {:?} (#{i}), seed {seed}", p), w)); break 'o; }
        }
    }
    report(found, tried)
}

pub fn c13_primnames() -> i32 {
    let names = ["bool", "char", "String", "u8", "u16", "u32", "u64", "u128", "u256", "i8", "i16", "i32", "i64", "i128", "i256"];
    let mut tried = 0;
    let mut found = None;
    for (i, p) in PRIMS.iter().enumerate() {
        tried += 1;
        let reg = registry(vec![ty("", vec![], prim(p.clone()))]);
        match scale_typegen_description::type_description(0, &reg, false) {
            Ok(s) if s == names[i] => {}
            other => { found = Some((format!("primitive {:?}", p), format!("described as {:?}, expected {:?}", other.map_err(|e| e.to_string()), names[i]))); break; }
        }
    }
    report(found, tried)
}

// ---------------------------------------------------------------------------------------------
// C18 / C08: U-DERIVES through the public API (upcast_composite, FlatDerivesRegistry::resolve)
pub fn c18_upcast() -> i32 {
    use scale_typegen::typegen::ir::type_ir::CompositeIR;
    use std::collections::HashSet;
    let mut tried = 0;
    let mut found = None;
    let reg = registry(vec![]);
    let a: syn::Path = syn::parse_quote!(A);
    let b: syn::Path = syn::parse_quote!(::b::B);
    let ca: syn::Path = syn::parse_quote!(::codec::CompactAs);
    let attr: syn::Attribute = syn::parse_quote!(#[x(y)]);
    let prim = |p: usize| TypePath::from_type(TypePathType::Primitive { def: PRIMS[p].clone() });
    'o: for with_ca in [false, true] { for codec in [false, true] { for shape in 0..7usize {
        let mut settings = TypeGeneratorSettings::default();
        let mut d = DerivesRegistry::new();
        d.add_derives_for_all([a.clone(), b.clone()]);
        d.add_attributes_for_all([attr.clone()]);
        // registrations for specific paths (plain and recursive) must not leak into a struct built by upcast_composite
        d.add_derives_for(syn::parse_quote!(m::Other), [syn::parse_quote!(OnlyForOther)], false);
        d.add_derives_for(syn::parse_quote!(m::Root), [syn::parse_quote!(OnlyRecursive)], true);
        d.add_attributes_for(syn::parse_quote!(m::Root), [syn::parse_quote!(#[rec])], true);
        settings.derives = d;
        if with_ca { settings.compact_as_type_path = Some(ca.clone()); }
        settings.insert_codec_attributes = codec;
        let (kind, eligible, what) = match shape {
            0 => (CompositeIRKind::NoFields, false, "no fields"),
            1 => (CompositeIRKind::Unnamed(vec![CompositeFieldIR::new(prim(5), false, false)]), true, "(u32)"),
            2 => (CompositeIRKind::Unnamed(vec![CompositeFieldIR::new(prim(5), false, false), CompositeFieldIR::new(prim(0), false, false)]), false, "(u32, bool)"),
            3 => (CompositeIRKind::Named(vec![(syn::parse_quote!(f), CompositeFieldIR::new(prim(7), true, false))]), true, "{f: u128}"),
            4 => (CompositeIRKind::Named(vec![(syn::parse_quote!(f), CompositeFieldIR::new(prim(0), false, false))]), false, "{f: bool}"),
            5 => (CompositeIRKind::Unnamed(vec![CompositeFieldIR::new(prim(8), false, false)]), false, "(u256)"),
            _ => (CompositeIRKind::Unnamed(vec![CompositeFieldIR::new(prim(12), false, true)]), false, "(Box<i64>)"),
        };
        let comp = CompositeIR::new(syn::parse_quote!(S), kind, Default::default());
        let gen = TypeGenerator::new(&reg, &settings);
        tried += 1;
        let ir = gen.upcast_composite(&comp);
        let mut want: HashSet<syn::Path> = [a.clone(), b.clone()].into_iter().collect();
        if with_ca && eligible { want.insert(ca.clone()); }
        let want_attrs: HashSet<syn::Attribute> = [attr.clone()].into_iter().collect();
        let why = if ir.derives.derives() != &want { Some(format!("derives {:?} != expected {:?}", ir.derives.derives().len(), want.len())) }
            else if ir.derives.attributes() != &want_attrs { Some("attributes differ from the global attributes".to_string()) }
            else if ir.insert_codec_attributes != codec { Some("insert_codec_attributes differs from the setting".to_string()) } else { None };
        if let Some(w) = why { found = Some((format!("upcast_composite of {what}, CompactAs configured: {with_ca}, codec attributes: {codec}"), w)); break 'o; }
    } } }
    report(found, tried)
}

pub fn c08_resolve() -> i32 {
    use std::collections::HashSet;
    let mut tried = 0;
    let mut found = None;
    let reg = registry(vec![]);
    let a: syn::Path = syn::parse_quote!(A);
    let b: syn::Path = syn::parse_quote!(B);
    let at1: syn::Attribute = syn::parse_quote!(#[one]);
    let at2: syn::Attribute = syn::parse_quote!(#[two]);
    let p1: syn::TypePath = syn::parse_quote!(m::P1);
    let p2: syn::TypePath = syn::parse_quote!(m::P2);
    let mut d = DerivesRegistry::new();
    d.add_derives_for_all([a.clone()]);
    d.add_attributes_for_all([at1.clone()]);
    d.add_derives_for(p1.clone(), [b.clone()], false);
    d.add_attributes_for(p1.clone(), [at2.clone()], false);
    let flat = d.flatten_recursive_derives(&reg).unwrap();
    for (p, wd, wa) in [(&p1, vec![a.clone(), b.clone()], vec![at1.clone(), at2.clone()]), (&p2, vec![a.clone()], vec![at1.clone()])] {
        tried += 1;
        let r = flat.resolve(p);
        let wd: HashSet<syn::Path> = wd.into_iter().collect();
        let wa: HashSet<syn::Attribute> = wa.into_iter().collect();
        if r.derives() != &wd || r.attributes() != &wa {
            found = Some((format!("resolve({}) with default {{A, #[one]}} and specific m::P1 {{B, #[two]}}", quote::quote!(#p)), format!("got {} derives / {} attributes, expected {} / {}", r.derives().len(), r.attributes().len(), wd.len(), wa.len())));
            break;
        }
    }
    report(found, tried)
}

// ---------------------------------------------------------------------------------------------
// C10 / U-MIXED: create_composite_ir_kind on field lists of 1..4 fields with every named/unnamed pattern
pub fn c10_mixed() -> i32 {
    use scale_typegen::typegen::type_params::TypeParameters;
    let mut tried = 0;
    let mut found = None;
    let reg = registry(vec![ty("", vec![], prim(TypeDefPrimitive::U8))]);
    let settings = TypeGeneratorSettings::default();
    let gen = TypeGenerator::new(&reg, &settings);
    'o: for n in 0..=4usize {
        for pat in 0..(1u32 << n) {
            let fields: Vec<_> = (0..n).map(|i| if pat & (1 << i) != 0 { field(Some(&format!("f{i}")), 0, Some("u8")) } else { field(None, 0, Some("u8")) }).collect();
            let named = fields.iter().filter(|f| f.name.is_some()).count();
            let is_mixed = named != 0 && named != n;
            tried += 1;
            let mut tp = TypeParameters::from_scale_info(&[]);
            let r = panic::catch_unwind(panic::AssertUnwindSafe(|| gen.create_composite_ir_kind(&fields, &mut tp)));
            let why = match r {
                Err(_) => Some("panic".to_string()),
                Ok(Err(TypegenError::InvalidFields(_))) if is_mixed => None,
                Ok(Err(e)) => Some(format!("unexpected error {e}")),
                Ok(Ok(_)) if is_mixed => Some("a composite mixing named and unnamed fields was accepted".to_string()),
                Ok(Ok(k)) => if n == 0 && !matches!(k, CompositeIRKind::NoFields) { Some("empty field list is not NoFields".to_string()) } else { None },
            };
            if let Some(w) = why { found = Some((format!("create_composite_ir_kind on {n} fields, named-mask {pat:#b}"), w)); break 'o; }
        }
    }
    report(found, tried)
}

// ---------------------------------------------------------------------------------------------
// C16 / U-BUILDERS: derive-registry builder calls in every order, with repetition, observed through flatten + resolve
pub fn c16_builders() -> i32 {
    use std::collections::HashSet;
    let mut tried = 0;
    let mut found = None;
    let reg = registry(vec![
        ty("", vec![], prim(TypeDefPrimitive::U8)),
        ty("m::Leaf", vec![], composite(vec![field(Some("x"), 0, Some("u8"))])),
        ty("m::Root", vec![], composite(vec![field(Some("a"), 1, Some("Leaf"))])),
    ]);
    let root: syn::TypePath = syn::parse_quote!(m::Root);
    let leaf: syn::TypePath = syn::parse_quote!(m::Leaf);
    let p = |s: &str| -> syn::Path { syn::parse_str(s).unwrap() };
    let at = |s: &str| -> syn::Attribute { let id: syn::Ident = syn::parse_str(s).unwrap(); syn::parse_quote!(#[#id]) };
    // operations: 0 global derive G, 1 global attr g, 2 specific derive S on Root, 3 recursive derive R on Root,
    //             4 specific attr s on Leaf, 5 recursive attr r on Root
    let apply = |d: &mut DerivesRegistry, op: usize| match op {
        0 => d.add_derives_for_all([p("G")]),
        1 => d.add_attributes_for_all([at("g")]),
        2 => d.add_derives_for(root.clone(), [p("S")], false),
        3 => d.add_derives_for(root.clone(), [p("R")], true),
        4 => d.add_attributes_for(leaf.clone(), [at("s")], false),
        5 => d.add_attributes_for(root.clone(), [at("r")], true),
        _ => d.add_attributes_for(root.clone(), [at("t")], false),
    };
    // every sequence of length <= 4 over the six operations
    let mut seqs: Vec<Vec<usize>> = vec![vec![]];
    let mut frontier: Vec<Vec<usize>> = vec![vec![]];
    for _ in 0..4 { let mut next = vec![]; for s0 in &frontier { for op in 0..7 { let mut s1 = s0.clone(); s1.push(op); next.push(s1); } } seqs.extend(next.iter().cloned()); frontier = next; }
    'o: for seq in seqs {
        tried += 1;
        let mut d = DerivesRegistry::new();
        for op in &seq { apply(&mut d, *op); }
        let flat = match d.flatten_recursive_derives(&reg) { Ok(f) => f, Err(e) => { found = Some((format!("{seq:?}"), format!("flatten failed: {e}"))); break 'o; } };
        let has = |op: usize| seq.contains(&op);
        let mut root_d: HashSet<syn::Path> = HashSet::new(); let mut root_a: HashSet<syn::Attribute> = HashSet::new();
        let mut leaf_d: HashSet<syn::Path> = HashSet::new(); let mut leaf_a: HashSet<syn::Attribute> = HashSet::new();
        if has(0) { root_d.insert(p("G")); leaf_d.insert(p("G")); }
        if has(1) { root_a.insert(at("g")); leaf_a.insert(at("g")); }
        if has(2) { root_d.insert(p("S")); }
        if has(3) { root_d.insert(p("R")); leaf_d.insert(p("R")); }
        if has(4) { leaf_a.insert(at("s")); }
        if has(5) { root_a.insert(at("r")); leaf_a.insert(at("r")); }
        if has(6) { root_a.insert(at("t")); }
        let rr = flat.resolve(&root); let lr = flat.resolve(&leaf);
        if rr.derives() != &root_d || rr.attributes() != &root_a || lr.derives() != &leaf_d || lr.attributes() != &leaf_a {
            found = Some((format!("builder call sequence {seq:?} (0 all-derive, 1 all-attr, 2 specific derive Root, 3 recursive derive Root, 4 specific attr Leaf, 5 recursive attr Root, 6 specific attr Root)"),
                format!("Root has {}/{} derives/attrs (expected {}/{}), Leaf {}/{} (expected {}/{})", rr.derives().len(), rr.attributes().len(), root_d.len(), root_a.len(), lr.derives().len(), lr.attributes().len(), leaf_d.len(), leaf_a.len())));
            break 'o;
        }
    }
    report(found, tried)
}

// ---------------------------------------------------------------------------------------------
// C16 / U-SUBST: sequences of insert / insert_if_not_exists (valid and rejected) observed through iter()
pub fn c16_subst() -> i32 {
    use scale_typegen::typegen::settings::substitutes::absolute_path;
    use scale_typegen::TypeSubstitutes;
    use std::collections::BTreeMap;
    let mut tried = 0;
    let mut found = None;
    // operations: (kind 0 insert / 1 insert_if_not_exists, source, target); source `a::Foo<(A, B)>` is rejected (a generic argument that is not a plain identifier)
    let srcs = ["a::Foo", "a::Foo<A>", "b::Bar", "a::Foo<(A, B)>"];
    let tgts = ["::x::T1", "::x::T2<A>", "::y::T3"];
    let mut ops = vec![];
    for k in 0..2 { for (si, s) in srcs.iter().enumerate() { for (ti, t) in tgts.iter().enumerate() { ops.push((k, si, s.to_string(), ti, t.to_string())); } } }
    let n = ops.len();
    'o: for a in 0..n { for b in 0..n { for c in [0usize, 7, 13, 20] {
        let seq = [&ops[a], &ops[b], &ops[c % n]];
        let mut subs = TypeSubstitutes::new();
        let mut model: BTreeMap<Vec<String>, String> = BTreeMap::new();
        tried += 1;
        for (k, si, s, _ti, t) in seq.iter().map(|o| (o.0, o.1, &o.2, o.3, &o.4)) {
            let src: syn::Path = syn::parse_str::<syn::TypePath>(s).unwrap().path;
            let tgt = absolute_path(syn::parse_str::<syn::TypePath>(t).unwrap().path).unwrap();
            let key: Vec<String> = src.segments.iter().map(|x| x.ident.to_string()).collect();
            let tgt_str = { let p: syn::Path = syn::parse_str::<syn::TypePath>(t).unwrap().path; quote::quote!(#p).to_string() };
            let before: BTreeMap<Vec<String>, String> = subs.iter().map(|(k, v)| (k.clone(), { let p = v.path(); quote::quote!(#p).to_string() })).collect();
            let r = if k == 0 { subs.insert(src, tgt) } else { subs.insert_if_not_exists(src, tgt) };
            let rejected = si == 3;
            match r {
                Ok(()) if rejected => { found = Some((format!("{seq:?}"), "a malformed source (non-identifier generic argument) was accepted".into())); break 'o; }
                Err(_) if !rejected => { found = Some((format!("{seq:?}"), "a valid substitution was rejected".into())); break 'o; }
                Ok(()) => { if k == 0 || !model.contains_key(&key) { model.insert(key, tgt_str); } }
                Err(_) => {
                    let after: BTreeMap<Vec<String>, String> = subs.iter().map(|(k, v)| (k.clone(), { let p = v.path(); quote::quote!(#p).to_string() })).collect();
                    if after != before { found = Some((format!("{seq:?}"), "a rejected insertion changed the rules".into())); break 'o; }
                }
            }
        }
        let got: BTreeMap<Vec<String>, String> = subs.iter().map(|(k, v)| (k.clone(), { let p = v.path(); quote::quote!(#p).to_string() })).collect();
        if got != model { found = Some((format!("{seq:?}"), format!("rules {got:?} differ from last-insert-wins / insert-if-absent model {model:?}"))); break 'o; }
    } } }
    // extend([..]): elements are inserted front to back (last wins); the first rejected element stops with an error and the
    // elements before it stay inserted
    if found.is_none() {
        'x: for a in 0..n { for b in 0..n { for c in [0usize, 5, 10, 11] {
            let ia = &ops[a]; let ib = &ops[b]; let ic = &ops[c % n];
            tried += 1;
            let mk = |o: &(i32, usize, String, usize, String)| -> (syn::Path, scale_typegen::typegen::settings::substitutes::AbsolutePath) {
                (syn::parse_str::<syn::TypePath>(&o.2).unwrap().path, absolute_path(syn::parse_str::<syn::TypePath>(&o.4).unwrap().path).unwrap()) };
            let mut subs = TypeSubstitutes::new();
            let mut model: BTreeMap<Vec<String>, String> = BTreeMap::new();
            // a first plain insert, then extend with two elements
            let (s0, t0) = mk(ia);
            let rejected0 = ia.1 == 3;
            let r0 = subs.insert(s0.clone(), t0);
            if r0.is_ok() != !rejected0 { found = Some((format!("insert {ia:?}"), "wrong accept/reject".into())); break 'x; }
            let tstr = |t: &str| { let p: syn::Path = syn::parse_str::<syn::TypePath>(t).unwrap().path; quote::quote!(#p).to_string() };
            let keyof = |p: &syn::Path| -> Vec<String> { p.segments.iter().map(|x| x.ident.to_string()).collect() };
            if !rejected0 { model.insert(keyof(&s0), tstr(&ia.4)); }
            let r = subs.extend(vec![mk(ib), mk(ic)]);
            let mut want_err = false;
            for o in [ib, ic] { if o.1 == 3 { want_err = true; break; } model.insert(keyof(&mk(o).0), tstr(&o.4)); }
            if r.is_err() != want_err { found = Some((format!("insert {ia:?}; extend [{ib:?}, {ic:?}]"), format!("extend returned {} although {}", if r.is_err() { "an error" } else { "Ok" }, if want_err { "an element is malformed" } else { "all elements are valid" }))); break 'x; }
            let got: BTreeMap<Vec<String>, String> = subs.iter().map(|(k, v)| (k.clone(), { let p = v.path(); quote::quote!(#p).to_string() })).collect();
            if got != model { found = Some((format!("insert {ia:?}; extend [{ib:?}, {ic:?}]"), format!("rules {got:?} differ from the front-to-back, last-wins, stop-at-first-rejected model {model:?}"))); break 'x; }
        } } }
    }
    report(found, tried)
}

// ---------------------------------------------------------------------------------------------
// C11 / U-VALIDATE: every sequence of <= 3 registrations over known and unknown paths (specific / recursive derives and
// attributes, empty registrations, substitutes); the result of validation compared, as sets, with an independent model
pub fn c11_validate() -> i32 {
    use scale_typegen::typegen::settings::substitutes::absolute_path;
    use scale_typegen::typegen::validation::validate_substitutes_and_derives_against_registry;
    use scale_typegen::TypeSubstitutes;
    use std::collections::{BTreeMap, BTreeSet};
    let reg = registry(vec![
        ty("", vec![], prim(TypeDefPrimitive::U8)),
        ty("a::B", vec![], composite(vec![field(Some("x"), 0, Some("u8"))])),
        ty("C", vec![], composite(vec![])),
    ]);
    let paths = ["a::B", "x::Y", "Z", "a::Q"];
    let known = |p: &str| p == "a::B" || p == "C";
    let tp = |s: &str| -> syn::TypePath { syn::parse_str(s).unwrap() };
    let p = |s: &str| -> syn::Path { syn::parse_str(s).unwrap() };
    let at = |s: &str| -> syn::Attribute { let id: syn::Ident = syn::parse_str(s).unwrap(); syn::parse_quote!(#[#id]) };
    let show = |t: &dyn quote::ToTokens| t.to_token_stream().to_string().replace(' ', "");
    // operation kinds on a path: 0 derive D1 specific, 1 derive D2 recursive, 2 attr s specific, 3 attr r recursive,
    // 4 empty derive list specific, 5 substitute -> ::t::T<kind-independent target per path>
    let mut ops: Vec<(usize, usize)> = vec![];
    for pi in 0..paths.len() { for k in 0..6 { ops.push((pi, k)); } }
    let n = ops.len();
    let mut seqs: Vec<Vec<usize>> = vec![vec![]];
    for a in 0..n { seqs.push(vec![a]); for b in 0..n { seqs.push(vec![a, b]); } }
    // length 3: a sample that keeps the run short but mixes all kinds on two unknown paths and a known one
    for a in 0..n { for b in 0..n { for c in [1usize * 6 + 1, 1 * 6 + 2, 2 * 6 + 0, 1 * 6 + 5, 0 * 6 + 3] { seqs.push(vec![a, b, c]); } } }
    let mut tried = 0;
    let mut found = None;
    'o: for seq in seqs {
        tried += 1;
        let mut d = DerivesRegistry::new();
        let mut s = TypeSubstitutes::new();
        let mut md: BTreeMap<String, BTreeSet<String>> = BTreeMap::new();
        let mut ma: BTreeMap<String, BTreeSet<String>> = BTreeMap::new();
        let mut ms: BTreeMap<String, String> = BTreeMap::new();
        for &o in &seq {
            let (pi, k) = ops[o];
            let path = paths[pi];
            match k {
                0 => { d.add_derives_for(tp(path), [p("D1")], false); if !known(path) { md.entry(path.into()).or_default().insert("D1".into()); } }
                1 => { d.add_derives_for(tp(path), [p("D2")], true); if !known(path) { md.entry(path.into()).or_default().insert("D2".into()); } }
                2 => { d.add_attributes_for(tp(path), [at("s")], false); if !known(path) { ma.entry(path.into()).or_default().insert("#[s]".into()); } }
                3 => { d.add_attributes_for(tp(path), [at("r")], true); if !known(path) { ma.entry(path.into()).or_default().insert("#[r]".into()); } }
                4 => { d.add_derives_for(tp(path), Vec::<syn::Path>::new(), false); }
                _ => {
                    let tgt = format!("::t::T{pi}");
                    s.insert(p(path), absolute_path(p(&tgt)).unwrap()).unwrap();
                    if !known(path) { ms.insert(path.into(), tgt); }
                }
            }
        }
        let r = panic::catch_unwind(panic::AssertUnwindSafe(|| validate_substitutes_and_derives_against_registry(&s, &d, &reg)));
        let describe = || format!("registrations {:?} over paths {paths:?} (kinds: 0 derive specific, 1 derive recursive, 2 attr specific, 3 attr recursive, 4 empty specific, 5 substitute); registry paths a::B, C",
            seq.iter().map(|&o| ops[o]).collect::<Vec<_>>());
        let r = match r { Ok(r) => r, Err(_) => { found = Some((describe(), "validation panicked".into())); break 'o; } };
        let want_ok = md.is_empty() && ma.is_empty() && ms.is_empty();
        match r {
            Ok(()) => if !want_ok { found = Some((describe(), format!("validation succeeded although unknown paths are configured: derives {md:?}, attributes {ma:?}, substitutes {ms:?}"))); break 'o; },
            Err(e) => {
                if want_ok { found = Some((describe(), format!("validation failed although every configured path is known: {e}"))); break 'o; }
                let gd: Vec<(String, BTreeSet<String>)> = e.derives_for_unknown_types.iter().map(|(k, v)| (show(k), v.iter().map(|x| show(x)).collect())).collect();
                let ga: Vec<(String, BTreeSet<String>)> = e.attributes_for_unknown_types.iter().map(|(k, v)| (show(k), v.iter().map(|x| show(x)).collect())).collect();
                let gs: Vec<(String, String)> = e.substitutes_for_unknown_types.iter().map(|(k, v)| (show(k), show(v))).collect();
                let gdm: BTreeMap<String, BTreeSet<String>> = gd.iter().cloned().collect();
                let gam: BTreeMap<String, BTreeSet<String>> = ga.iter().cloned().collect();
                let gsm: BTreeMap<String, String> = gs.iter().cloned().collect();
                if gdm.len() != gd.len() || gam.len() != ga.len() || gsm.len() != gs.len() {
                    found = Some((describe(), format!("an unknown path is listed more than once: {gd:?} {ga:?} {gs:?}"))); break 'o;
                }
                if gdm != md || gam != ma || gsm != ms {
                    found = Some((describe(), format!("error lists derives {gdm:?} attributes {gam:?} substitutes {gsm:?}; expected {md:?} {ma:?} {ms:?}"))); break 'o;
                }
            }
        }
    }
    report(found, tried)
}

// ---------------------------------------------------------------------------------------------
// C08 / U-FLATTEN: several recursive roots with different reachable sets, in both registry orders, together with specific
// registrations; through DerivesRegistry::flatten_recursive_derives + FlatDerivesRegistry::resolve (public API)
pub fn c08_flatten() -> i32 {
    use std::collections::{BTreeMap, BTreeSet};
    let leaf = |p: &str| ty(p, vec![], composite(vec![field(Some("x"), 0, Some("u8"))]));
    let two = |p: &str, a: u32, an: &str, b: u32, bn: &str| ty(p, vec![], composite(vec![field(Some("a"), a, Some(an)), field(Some("b"), b, Some(bn))]));
    // order 0: ids 0 u8, 1 LeafA, 2 LeafB, 3 Shared, 4 A{LeafA, Shared}, 5 B{LeafB, Shared}, 6 Other
    // order 1: ids 0 u8, 1 LeafA, 2 LeafB, 3 Shared, 4 B{LeafB, Shared}, 5 A{LeafA, Shared}, 6 Other
    // order 2: a Top type that reaches EVERY type of the registry comes first: 0 Top{A, B, Other}, 1 LeafA, 2 LeafB, 3 Shared, 4 A, 5 B, 6 Other, 7 u8
    let three = |p: &str, a: u32, b: u32, c: u32| ty(p, vec![], composite(vec![field(Some("a"), a, Some("A")), field(Some("b"), b, Some("B")), field(Some("c"), c, Some("Other"))]));
    let leaf7 = |p: &str| ty(p, vec![], composite(vec![field(Some("x"), 7, Some("u8"))]));
    let regs = [
        registry(vec![ty("", vec![], prim(TypeDefPrimitive::U8)), leaf("m::LeafA"), leaf("m::LeafB"), leaf("m::Shared"), two("m::A", 1, "LeafA", 3, "Shared"), two("m::B", 2, "LeafB", 3, "Shared"), leaf("m::Other")]),
        registry(vec![ty("", vec![], prim(TypeDefPrimitive::U8)), leaf("m::LeafA"), leaf("m::LeafB"), leaf("m::Shared"), two("m::B", 2, "LeafB", 3, "Shared"), two("m::A", 1, "LeafA", 3, "Shared"), leaf("m::Other")]),
        registry(vec![three("m::Top", 4, 5, 6), leaf7("m::LeafA"), leaf7("m::LeafB"), leaf7("m::Shared"), two("m::A", 1, "LeafA", 3, "Shared"), two("m::B", 2, "LeafB", 3, "Shared"), leaf7("m::Other"), ty("", vec![], prim(TypeDefPrimitive::U8))]),
    ];
    let names = ["m::LeafA", "m::LeafB", "m::Shared", "m::A", "m::B", "m::Other", "m::Top"];
    let reach: BTreeMap<&str, Vec<&str>> = [("m::A", vec!["m::A", "m::LeafA", "m::Shared"]), ("m::B", vec!["m::B", "m::LeafB", "m::Shared"]), ("m::Shared", vec!["m::Shared"]),
        ("m::Top", vec!["m::Top", "m::A", "m::B", "m::Other", "m::LeafA", "m::LeafB", "m::Shared"])].into_iter().collect();
    let tp = |s: &str| -> syn::TypePath { syn::parse_str(s).unwrap() };
    let p = |s: &str| -> syn::Path { syn::parse_str(s).unwrap() };
    let at = |s: &str| -> syn::Attribute { let id: syn::Ident = syn::parse_str(s).unwrap(); syn::parse_quote!(#[#id]) };
    let show = |t: &dyn quote::ToTokens| t.to_token_stream().to_string().replace(' ', "");
    // registrations: (kind, path, name, recursive)   kind 0 derive, 1 attribute
    let regsn: [(u8, &str, &str, bool); 8] = [(0, "m::A", "DA", true), (0, "m::B", "DB", true), (1, "m::A", "ra", true), (0, "m::LeafB", "S", false),
        (0, "m::A", "S2", false), (0, "m::Shared", "DS", true), (1, "m::B", "sb", false), (0, "m::Top", "DT", true)];
    let mut tried = 0;
    let mut found = None;
    'o: for (oi, reg) in regs.iter().enumerate() {
        for mask in 0u32..(1 << regsn.len()) {
            tried += 1;
            let mut d = DerivesRegistry::new();
            d.add_derives_for_all([p("G")]);
            let mut want_d: BTreeMap<&str, BTreeSet<String>> = names.iter().map(|n| (*n, ["G".to_string()].into_iter().collect())).collect();
            let mut want_a: BTreeMap<&str, BTreeSet<String>> = names.iter().map(|n| (*n, BTreeSet::new())).collect();
            for (i, (kind, path, name, rec)) in regsn.iter().enumerate() {
                if mask & (1 << i) == 0 { continue; }
                if *path == "m::Top" && oi != 2 { continue; }
                if *kind == 0 { d.add_derives_for(tp(path), [p(name)], *rec); } else { d.add_attributes_for(tp(path), [at(name)], *rec); }
                let targets: Vec<&str> = if *rec { reach[path].clone() } else { vec![*path] };
                for t in targets { if *kind == 0 { want_d.get_mut(t).unwrap().insert(name.to_string()); } else { want_a.get_mut(t).unwrap().insert(format!("#[{name}]")); } }
            }
            let describe = || format!("registry order {oi} (0: A before B, 1: B before A, 2: Top = {{A, B, Other}} first; A = {{LeafA, Shared}}, B = {{LeafB, Shared}}), registrations {:?}",
                regsn.iter().enumerate().filter(|(i, _)| mask & (1 << i) != 0).map(|(_, r)| *r).collect::<Vec<_>>());
            let flat = match panic::catch_unwind(panic::AssertUnwindSafe(|| d.flatten_recursive_derives(reg))) {
                Ok(Ok(f)) => f,
                Ok(Err(e)) => { found = Some((describe(), format!("flatten failed: {e}"))); break 'o; }
                Err(_) => { found = Some((describe(), "flatten panicked".into())); break 'o; }
            };
            for n in names {
                if n == "m::Top" && oi != 2 { continue; }
                let r = flat.resolve(&tp(n));
                let gd: BTreeSet<String> = r.derives().iter().map(|x| show(x)).collect();
                let ga: BTreeSet<String> = r.attributes().iter().map(|x| show(x)).collect();
                if gd != want_d[n] || ga != want_a[n] {
                    found = Some((describe(), format!("{n} resolves to derives {gd:?} attributes {ga:?}; expected {:?} {:?}", want_d[n], want_a[n]))); break 'o;
                }
            }
        }
    }
    report(found, tried)
}

// ---------------------------------------------------------------------------------------------
// C10 / U-PATHS: compact and bit-sequence types with and without the configured paths, directly and nested, through
// TypeGenerator::resolve_type_path / resolve_field_type_path (public API); error kinds and the path used are compared
pub fn c10_paths() -> i32 {
    use scale_typegen::typegen::ir::ToTokensWithSettings;
    panic::set_hook(Box::new(|_| {}));
    // ids: 0 u8, 1 Compact<u8>, 2 BitSequence<store u8, order 3>, 3 m::Lsb0, 4 Vec<Compact<u8>>, 5 [BitSequence; 2], 6 (u8, Compact<u8>), 7 m::S { a: Compact<u8> }, 8 u16,
    //      9 m::W(u8), 10 Compact<m::W> (a compact whose inner type is not a primitive)
    let reg = registry(vec![
        ty("", vec![], prim(TypeDefPrimitive::U8)), ty("", vec![], compact(0)), ty("", vec![], bitseq(0, 3)), ty("m::Lsb0", vec![], composite(vec![])),
        ty("", vec![], seq(1)), ty("", vec![], arr(2, 2)), ty("", vec![], tuple(vec![0, 1])), ty("m::S", vec![], composite(vec![field(Some("a"), 1, Some("Compact<u8>"))])),
        ty("", vec![], prim(TypeDefPrimitive::U16)),
        ty("m::W", vec![], composite(vec![field(None, 0, Some("u8"))])), ty("", vec![], compact(9)),
    ]);
    // which ids need which path (transitively, for path resolution): compact: 1 4 6; bits: 2 5
    let needs_compact = [1u32, 4, 6, 10];
    let needs_bits = [2u32, 5];
    let mut tried = 0;
    let mut found = None;
    'o: for cfg in 0..4u32 {
        let mut settings = TypeGeneratorSettings::default();
        settings.compact_type_path = if cfg & 1 != 0 { Some(syn::parse_quote!(::my::Cpt)) } else { None };
        settings.decoded_bits_type_path = if cfg & 2 != 0 { Some(syn::parse_quote!(::my::Bits)) } else { None };
        let gen = TypeGenerator::new(&reg, &settings);
        for id in 0..reg.types.len() as u32 {
            for as_field in [false, true] {
                tried += 1;
                let r = panic::catch_unwind(panic::AssertUnwindSafe(|| if as_field { gen.resolve_field_type_path(id, &[], None) } else { gen.resolve_type_path(id) }));
                let want_c = needs_compact.contains(&id) && cfg & 1 == 0;
                let want_b = needs_bits.contains(&id) && cfg & 2 == 0;
                let why = match r {
                    Err(_) => Some("panic".to_string()),
                    Ok(Err(TypegenError::CompactPathNone)) => if want_c { None } else { Some("CompactPathNone although no compact path is needed or one is configured".into()) },
                    Ok(Err(TypegenError::DecodedBitsPathNone)) => if want_b { None } else { Some("DecodedBitsPathNone although no bits path is needed or one is configured".into()) },
                    Ok(Err(e)) => Some(format!("unexpected error {e}")),
                    Ok(Ok(p)) => {
                        if want_c { Some("resolved although the compact path is not configured".into()) }
                        else if want_b { Some("resolved although the decoded-bits path is not configured".into()) }
                        else {
                            let s = p.to_token_stream(&settings).to_string().replace(' ', "");
                            let uses_c = s.contains("::my::Cpt"); let uses_b = s.contains("::my::Bits");
                            // a compact that is resolved as a FIELD is written as its inner type (the attribute carries the compactness)
                            let expect_c = needs_compact.contains(&id) && !(as_field && (id == 1 || id == 10));
                            if uses_c != expect_c { Some(format!("resolved to `{s}`: configured compact path {}", if expect_c { "missing" } else { "used unexpectedly" })) }
                            else if uses_b != needs_bits.contains(&id) { Some(format!("resolved to `{s}`: configured decoded-bits path {}", if uses_b { "used unexpectedly" } else { "missing" })) }
                            else if id == 0 && s != "::core::primitive::u8" { Some(format!("u8 resolved to `{s}`")) }
                            else if id == 8 && s != "::core::primitive::u16" { Some(format!("u16 resolved to `{s}`")) }
                            else { None }
                        }
                    }
                };
                if let Some(w) = why { found = Some((format!("{}({id}) with compact path {} and decoded-bits path {} (ids: 0 u8, 1 Compact<u8>, 2 BitSequence, 3 m::Lsb0, 4 Vec<Compact<u8>>, 5 [BitSequence; 2], 6 (u8, Compact<u8>), 7 m::S, 8 u16, 9 m::W(u8), 10 Compact<m::W>)",
                    if as_field { "resolve_field_type_path" } else { "resolve_type_path" }, if cfg & 1 != 0 { "set" } else { "unset" }, if cfg & 2 != 0 { "set" } else { "unset" }), w)); break 'o; }
            }
        }
    }
    report(found, tried)
}

// ---------------------------------------------------------------------------------------------
// C08 / U-TYPEIR: create_type_ir on registry types (one-field uint struct, two-field struct, one-field bool struct, enum, a
// primitive) with and without a configured CompactAs path, with global / specific / recursive registrations; the IR's
// derives and attributes are compared with default + specific (after flattening) + CompactAs iff eligible and configured
pub fn c08_typeir() -> i32 {
    use std::collections::BTreeSet;
    // ids: 0 u32, 1 bool, 2 m::One(u32), 3 m::Two{a: u32, b: bool}, 4 m::Flag{f: bool}, 5 m::E { A, B(u32) }, 6 m::Outer{x: One}
    let reg = registry(vec![
        ty("", vec![], prim(TypeDefPrimitive::U32)), ty("", vec![], prim(TypeDefPrimitive::Bool)),
        ty("m::One", vec![], composite(vec![field(None, 0, Some("u32"))])),
        ty("m::Two", vec![], composite(vec![field(Some("a"), 0, Some("u32")), field(Some("b"), 1, Some("bool"))])),
        ty("m::Flag", vec![], composite(vec![field(Some("f"), 1, Some("bool"))])),
        ty("m::E", vec![], variant(vec![("A", 0, vec![]), ("B", 1, vec![field(None, 0, Some("u32"))])])),
        ty("m::Outer", vec![], composite(vec![field(Some("x"), 2, Some("One"))])),
    ]);
    let show = |t: &dyn quote::ToTokens| t.to_token_stream().to_string().replace(' ', "");
    let p = |s: &str| -> syn::Path { syn::parse_str(s).unwrap() };
    let tp = |s: &str| -> syn::TypePath { syn::parse_str(s).unwrap() };
    let at = |s: &str| -> syn::Attribute { let id: syn::Ident = syn::parse_str(s).unwrap(); syn::parse_quote!(#[#id]) };
    let mut tried = 0;
    let mut found = None;
    'o: for with_ca in [false, true] { for codec in [false, true] { for mask in 0..8u32 {
        let mut settings = TypeGeneratorSettings::default();
        let mut d = DerivesRegistry::new();
        d.add_derives_for_all([p("G")]);
        d.add_attributes_for_all([at("g")]);
        if mask & 1 != 0 { d.add_derives_for(tp("m::One"), [p("S1")], false); }
        if mask & 2 != 0 { d.add_derives_for(tp("m::Outer"), [p("R")], true); d.add_attributes_for(tp("m::Outer"), [at("r")], true); }
        if mask & 4 != 0 { d.add_attributes_for(tp("m::E"), [at("e")], false); }
        settings.derives = d.clone();
        if with_ca { settings.compact_as_type_path = Some(p("::codec::CompactAs")); }
        settings.insert_codec_attributes = codec;
        let flat = match d.flatten_recursive_derives(&reg) { Ok(f) => f, Err(e) => { found = Some((format!("mask {mask}"), format!("flatten failed: {e}"))); break 'o; } };
        let gen = TypeGenerator::new(&reg, &settings);
        for id in 0..reg.types.len() {
            tried += 1;
            let t = &reg.types[id].ty;
            let r = panic::catch_unwind(panic::AssertUnwindSafe(|| gen.create_type_ir(t, &flat)));
            let name = t.path.segments.join("::");
            let describe = || format!("create_type_ir of type {id} `{name}` (0 u32, 1 bool, 2 m::One(u32), 3 m::Two{{a,b}}, 4 m::Flag{{f: bool}}, 5 enum m::E, 6 m::Outer{{x: One}}), CompactAs configured: {with_ca}, codec attributes: {codec}, registrations mask {mask} (1: derive S1 on m::One, 2: recursive derive R + attribute r on m::Outer, 4: attribute e on m::E)");
            let r = match r { Ok(r) => r, Err(_) => { found = Some((describe(), "panic".into())); break 'o; } };
            let is_def = id >= 2;
            match r {
                Err(e) => { found = Some((describe(), format!("error {e}"))); break 'o; }
                Ok(None) => if is_def { found = Some((describe(), "no IR for a struct / enum".into())); break 'o; },
                Ok(Some(ir)) => {
                    if !is_def { found = Some((describe(), "an IR for a builtin type".into())); break 'o; }
                    let mut wd: BTreeSet<String> = ["G".to_string()].into_iter().collect();
                    let mut wa: BTreeSet<String> = ["#[g]".to_string()].into_iter().collect();
                    if mask & 1 != 0 && id == 2 { wd.insert("S1".into()); }
                    if mask & 2 != 0 && (id == 6 || id == 2) { wd.insert("R".into()); wa.insert("#[r]".into()); }
                    if mask & 4 != 0 && id == 5 { wa.insert("#[e]".into()); }
                    if with_ca && id == 2 { wd.insert("::codec::CompactAs".into()); }
                    let gd: BTreeSet<String> = ir.derives.derives().iter().map(|x| show(x)).collect();
                    let ga: BTreeSet<String> = ir.derives.attributes().iter().map(|x| show(x)).collect();
                    if gd != wd || ga != wa { found = Some((describe(), format!("derives {gd:?} attributes {ga:?}; expected {wd:?} {wa:?}"))); break 'o; }
                    if ir.insert_codec_attributes != codec { found = Some((describe(), "insert_codec_attributes differs from the setting".into())); break 'o; }
                }
            }
        }
    } } }
    report(found, tried)
}

// ---------------------------------------------------------------------------------------------
// C12 / U-TYEX: the per-type-def construction of example values, through the public API, on a catalogue registry that exercises every
// arm of ty_example / fields_type_example (char, u256, i256 are left out: known findings of U-PRIMEX).  Per (type id, seed): terminates,
// no panic, a value for every acyclic type without an empty enum, the value encodes against the same id, decodes back consuming all
// input to an equal value, and the same seed gives the same value; a cyclic type or an empty enum gives an error, not a hang.
fn c12_catalogue() -> (PortableRegistry, Vec<u32>, Vec<u32>) {
    use TypeDefPrimitive as P;
    let p = |x: P| ty("", vec![], prim(x));
    let f = |n: &str, id: u32| field(Some(n), id, None);
    let u = |id: u32| field(None, id, None);
    let types = vec![
        /* 0*/ p(P::U8), /* 1*/ p(P::U16), /* 2*/ p(P::U32), /* 3*/ p(P::U64), /* 4*/ p(P::U128), /* 5*/ p(P::Bool), /* 6*/ p(P::Str),
        /* 7*/ p(P::I8), /* 8*/ p(P::I16), /* 9*/ p(P::I32), /*10*/ p(P::I64), /*11*/ p(P::I128),
        /*12*/ ty("", vec![], tuple(vec![])),
        /*13*/ ty("m::Empty", vec![], composite(vec![])),
        /*14*/ ty("m::N", vec![], composite(vec![f("a", 0), f("b", 5), f("c", 6)])),
        /*15*/ ty("m::U", vec![], composite(vec![u(1), u(9)])),
        /*16*/ ty("m::W", vec![], composite(vec![f("x", 2)])),
        /*17*/ ty("m::W1", vec![], composite(vec![u(3)])),
        /*18*/ ty("m::E", vec![], variant(vec![("A", 0, vec![]), ("B", 1, vec![u(0)]), ("C", 2, vec![f("p", 1), f("q", 5)]), ("D", 7, vec![u(0), u(0), u(0)])])),
        /*19*/ ty("", vec![], seq(0)),
        /*20*/ ty("", vec![], seq(12)),
        /*21*/ ty("", vec![], seq(14)),
        /*22*/ ty("", vec![], arr(0, 0)),
        /*23*/ ty("", vec![], arr(3, 1)),
        /*24*/ ty("", vec![], arr(2, 18)),
        /*25*/ ty("", vec![], tuple(vec![0])),
        /*26*/ ty("", vec![], tuple(vec![0, 6, 15])),
        /*27*/ ty("", vec![], compact(0)),
        /*28*/ ty("", vec![], compact(2)),
        /*29*/ ty("", vec![], compact(4)),
        /*30*/ ty("", vec![], compact(16)),
        /*31*/ ty("", vec![], compact(17)),
        /*32*/ ty("m::C", vec![], composite(vec![f("c", 28), f("d", 0)])),
        /*33*/ ty("bitvec::order::Lsb0", vec![], composite(vec![])),
        /*34*/ ty("", vec![], bitseq(0, 33)),
        /*35*/ ty("", vec![], seq(37)),
        /*36*/ ty("", vec![], tuple(vec![0, 18])),
        /*37*/ ty("", vec![], seq(36)),
        /*38*/ ty("Option", vec![("T", Some(14))], variant(vec![("None", 0, vec![]), ("Some", 1, vec![u(14)])])),
        /*39*/ ty("m::Big", vec![], composite(vec![f("f0", 0), f("f1", 19), f("f2", 26), f("f3", 18), f("f4", 23), f("f5", 12), f("f6", 32)])),
        /*40*/ ty("", vec![], tuple(vec![25, 12])),
        /*41*/ ty("", vec![], arr(2, 42)),
        /*42*/ ty("", vec![], arr(2, 0)),
        /*43*/ ty("m::Rec", vec![], composite(vec![f("next", 46)])),
        /*44*/ ty("m::Never", vec![], variant(vec![])),
        /*45*/ ty("m::HasNever", vec![], composite(vec![f("n", 44)])),
        /*46*/ ty("", vec![], seq(43)),
        /*47*/ ty("m::V1", vec![], variant(vec![("Only", 3, vec![f("a", 27), f("b", 20)])])),
        /*48*/ ty("m::Deep", vec![], composite(vec![u(39), u(38), u(35)])),
    ];
    let err: Vec<u32> = vec![43, 44, 45, 46];
    let ok: Vec<u32> = (0..types.len() as u32).filter(|i| !err.contains(i)).collect();
    (registry(types), ok, err)
}

fn c12_one(reg: &PortableRegistry, id: u32, seed: u64, expect_ok: bool) -> Option<String> {
    use scale_typegen_description::scale_value_from_seed;
    let r = panic::catch_unwind(|| scale_value_from_seed(id, reg, seed));
    match r {
        Err(_) => Some("panic".to_string()),
        Ok(Err(e)) => if expect_ok { Some(format!("no value although the type is acyclic and has no empty enum: {e}")) } else { None },
        Ok(Ok(v)) => {
            if !expect_ok { return Some(format!("a value {v:?} for a type that has no finite value")); }
            let mut bytes = vec![];
            if let Err(e) = scale_value::scale::encode_as_type(&v, id, reg, &mut bytes) {
                return Some(format!("example {v:?} does not encode against its own type: {e}"));
            }
            let cur = &mut &bytes[..];
            match scale_value::scale::decode_as_type(cur, id, reg) {
                Err(e) => return Some(format!("bytes of example {v:?} do not decode: {e}")),
                Ok(d) => {
                    if !cur.is_empty() { return Some(format!("decoding the bytes of example {v:?} leaves {} bytes", cur.len())); }
                    if d.clone().remove_context() != v { return Some(format!("example {v:?} decodes back to a different value {:?}", d.remove_context())); }
                }
            }
            match panic::catch_unwind(|| scale_value_from_seed(id, reg, seed)) {
                Ok(Ok(v2)) if v2 == v => None,
                _ => Some(format!("the same seed gave a different result the second time (first {v:?})")),
            }
        }
    }
}

pub fn c12_structure(seeds: u64) -> i32 {
    use std::sync::mpsc;
    let (tx, rx) = mpsc::channel::<(String, Option<Option<String>>)>();
    std::thread::Builder::new().stack_size(256 << 20).spawn(move || {
        let (reg, ok, err) = c12_catalogue();
        for seed in 0..seeds {
            for (ids, expect_ok) in [(&ok, true), (&err, false)] {
                for &id in ids.iter() {
                    let label = format!("catalogue type #{id} ({}), seed {seed}", match &reg.types[id as usize].ty.type_def {
                        scale_info::TypeDef::Composite(_) => "composite", scale_info::TypeDef::Variant(_) => "variant", scale_info::TypeDef::Sequence(_) => "sequence",
                        scale_info::TypeDef::Array(_) => "array", scale_info::TypeDef::Tuple(_) => "tuple", scale_info::TypeDef::Primitive(_) => "primitive",
                        scale_info::TypeDef::Compact(_) => "compact", scale_info::TypeDef::BitSequence(_) => "bit sequence" }.to_string() + " " + &reg.types[id as usize].ty.path.segments.join("::"));
                    let _ = tx.send((label.clone(), None));
                    let w = c12_one(&reg, id, seed, expect_ok);
                    let _ = tx.send((label, Some(w)));
                }
            }
        }
    }).unwrap();
    let mut tried = 0usize;
    let mut current = String::new();
    loop {
        match rx.recv_timeout(std::time::Duration::from_secs(20)) {
            Ok((label, None)) => { current = label; }
            Ok((label, Some(w))) => { tried += 1; if let Some(w) = w { return report(Some((label, w)), tried); } }
            Err(mpsc::RecvTimeoutError::Timeout) => { return report(Some((current, "does not terminate (no result after 20 s; every other item takes milliseconds)".into())), tried); }
            Err(mpsc::RecvTimeoutError::Disconnected) => { return report(None, tried); }
        }
    }
}

// ---------------------------------------------------------------------------------------------
// C11 / U-SIMILAR: similar_type_paths_in_registry on a catalogue of registries x queries; the expected list is computed here,
// independently: the registry paths (non-empty) whose last segment equals the query's last identifier, in registry order.
pub fn c11_similar() -> i32 {
    use quote::ToTokens;
    use scale_typegen::typegen::validation::similar_type_paths_in_registry;
    use TypeDefPrimitive as P;
    let mk = |paths: &[&str]| registry(paths.iter().map(|p| ty(p, vec![], prim(P::U8))).collect());
    let regs: Vec<(&str, Vec<&str>)> = vec![
        ("empty", vec![]),
        ("path-less only", vec!["", "", ""]),
        ("mixed", vec!["a::S", "", "b::c::S", "S", "a::T", "x::MyS", "x::Sx", "", "a::S", "a::S", "d::S", "RawEvent", "e::Event", "Event"]),
        ("longer first", vec!["a::b::c::S", "a::S", "S", "a::b::S"]),
        ("duplicates adjacent", vec!["w::Wrapper", "w::Wrapper", "w::Other", "w::Wrapper"]),
        ("single segments", vec!["S", "T", "S", "", "Ss"]),
        ("prefix and suffix of the query", vec!["a::b", "a::b::S", "b::S", "a::b::S::x", "S::a::b"]),
    ];
    let queries = ["S", "a::S", "a::b::S", "::a::b::S", "T", "Event", "Wrapper", "w::Wrapper", "x::y::z::Ss", "a::Foo<u8>", "S<T>", "b", "x"];
    let mut tried = 0;
    let mut found = None;
    'o: for (name, paths) in regs.iter() {
        let reg = mk(paths);
        for q in queries.iter() {
            tried += 1;
            let qp: syn::Path = syn::parse_str(q).unwrap();
            let last = qp.segments.last().unwrap().ident.to_string();
            let expected: Vec<String> = paths.iter().filter(|p| !p.is_empty() && p.split("::").last() == Some(last.as_str())).map(|p| p.split("::").collect::<Vec<_>>().join(" :: ")).collect();
            let got = panic::catch_unwind(|| similar_type_paths_in_registry(&reg, &qp).iter().map(|p| p.to_token_stream().to_string()).collect::<Vec<_>>());
            match got {
                Err(_) => { found = Some((format!("registry '{name}' {paths:?}, query {q}"), "panic".to_string())); break 'o; }
                Ok(g) if g != expected => { found = Some((format!("registry '{name}' {paths:?}, query {q}"), format!("returned {g:?}, expected {expected:?}"))); break 'o; }
                _ => {}
            }
        }
    }
    report(found, tried)
}

// ---------------------------------------------------------------------------------------------
// C13 / U-DESCTEXT: the list-shaped parts of a type description (tuple elements, enum variants, field lists) against a small reference
// describer written from the property text, on a catalogue without repeated named types (so the expand-once policy plays no role).
fn c13_ref(reg: &PortableRegistry, id: u32) -> Result<String, String> {
    use scale_info::TypeDef as D;
    let t = &reg.types[id as usize].ty;
    let fields = |fs: &Vec<scale_info::Field<scale_info::form::PortableForm>>| -> Result<String, String> {
        if fs.is_empty() { return Ok("()".into()); }
        let named = fs.iter().all(|f| f.name.is_some());
        let unnamed = fs.iter().all(|f| f.name.is_none());
        if !named && !unnamed { return Err("mixed".into()); }
        let mut items = vec![];
        for f in fs { let d = c13_ref(reg, f.ty.id)?;
            let d = if f.type_name.as_ref().map(|s| s.contains("Box<")).unwrap_or(false) { format!("Box<{d}>") } else { d };
            items.push(match &f.name { Some(n) => format!("{n}: {d}"), None => d }); }
        Ok(if named { format!("{{{}}}", items.join(",")) } else { format!("({})", items.join(",")) })
    };
    let name = t.path.segments.last().cloned().unwrap_or_default();
    Ok(match &t.type_def {
        D::Primitive(p) => match p { TypeDefPrimitive::Bool => "bool", TypeDefPrimitive::Char => "char", TypeDefPrimitive::Str => "String", TypeDefPrimitive::U8 => "u8",
            TypeDefPrimitive::U16 => "u16", TypeDefPrimitive::U32 => "u32", TypeDefPrimitive::U64 => "u64", TypeDefPrimitive::U128 => "u128", TypeDefPrimitive::U256 => "u256",
            TypeDefPrimitive::I8 => "i8", TypeDefPrimitive::I16 => "i16", TypeDefPrimitive::I32 => "i32", TypeDefPrimitive::I64 => "i64", TypeDefPrimitive::I128 => "i128", TypeDefPrimitive::I256 => "i256" }.to_string(),
        D::Tuple(tu) => { let mut items = vec![]; for e in &tu.fields { items.push(c13_ref(reg, e.id)?); }
            format!("({}{})", items.join(","), if items.len() == 1 { "," } else { "" }) }
        D::Composite(c) => format!("struct {name}{}", fields(&c.fields)?),
        D::Variant(v) => { let mut items = vec![]; for var in &v.variants { let f = fields(&var.fields)?; items.push(if f == "()" { var.name.clone() } else { format!("{}{f}", var.name) }); }
            format!("enum {name}{{{}}}", items.join(",")) }
        D::Sequence(s) => format!("Vec<{}>", c13_ref(reg, s.type_param.id)?),
        D::Array(a) => format!("[{}; {}]", c13_ref(reg, a.type_param.id)?, a.len),
        D::Compact(c) => format!("Compact<{}>", c13_ref(reg, c.type_param.id)?),
        D::BitSequence(b) => format!("BitSequence({}, {})", c13_ref(reg, b.bit_order_type.id)?, c13_ref(reg, b.bit_store_type.id)?),
    })
}

pub fn c13_text() -> i32 {
    use TypeDefPrimitive as P;
    let p = |x: P| ty("", vec![], prim(x));
    let f = |n: &str, id: u32| field(Some(n), id, None);
    let u = |id: u32| field(None, id, None);
    // every named type is used at most once below any root (no cache hit), roots are all ids
    let reg = registry(vec![
        /* 0*/ p(P::U8), /* 1*/ p(P::Bool), /* 2*/ p(P::Str), /* 3*/ p(P::I32),
        /* 4*/ ty("", vec![], tuple(vec![])), /* 5*/ ty("", vec![], tuple(vec![0])), /* 6*/ ty("", vec![], tuple(vec![0, 1])), /* 7*/ ty("", vec![], tuple(vec![0, 1, 2, 3])),
        /* 8*/ ty("", vec![], tuple(vec![5, 4, 6])),
        /* 9*/ ty("m::Empty", vec![], composite(vec![])), /*10*/ ty("m::N1", vec![], composite(vec![f("a", 0)])), /*11*/ ty("m::N3", vec![], composite(vec![f("a", 0), f("b", 1), f("c", 6)])),
        /*12*/ ty("m::U1", vec![], composite(vec![u(0)])), /*13*/ ty("m::U3", vec![], composite(vec![u(0), u(5), u(2)])),
        /*14*/ ty("m::Mixed", vec![], composite(vec![f("a", 0), u(1)])), /*15*/ ty("m::Mixed2", vec![], composite(vec![u(1), f("a", 0), f("b", 0)])),
        /*16*/ ty("m::E0", vec![], variant(vec![])), /*17*/ ty("m::E1", vec![], variant(vec![("A", 0, vec![])])),
        /*18*/ ty("m::E4", vec![], variant(vec![("A", 0, vec![]), ("B", 1, vec![u(0)]), ("C", 2, vec![f("p", 3), f("q", 1)]), ("D", 3, vec![u(0), u(1), u(6)])])),
        /*19*/ ty("m::EMixed", vec![], variant(vec![("A", 0, vec![]), ("M", 1, vec![f("p", 3), u(1)])])),
        /*20*/ ty("", vec![], seq(7)), /*21*/ ty("", vec![], arr(3, 5)), /*22*/ ty("m::Outer", vec![], composite(vec![f("x", 11), f("y", 18), f("z", 8)])),
        /*23*/ ty("", vec![], composite(vec![u(0), u(1)])),
        /*24*/ ty("m::N5", vec![], composite(vec![f("a", 0), f("b", 1), f("c", 2), f("d", 3), f("e", 0)])),
        /*25*/ ty("m::U4", vec![], composite(vec![u(0), u(1), u(2), u(3)])),
        /*26*/ ty("m::E5", vec![], variant(vec![("V", 0, vec![u(0), u(1), u(2), u(3), u(5)]), ("W", 1, vec![f("a", 0), f("b", 1), f("c", 2), f("d", 3)]), ("X", 2, vec![]), ("Y", 3, vec![u(4)]), ("Z", 4, vec![f("only", 6)])])),
        /*27*/ ty("", vec![], tuple(vec![0, 1, 2, 3, 0, 1, 2])),
        /*28*/ ty("", vec![], compact(0)),
        /*29*/ ty("bitvec::order::Lsb0", vec![], composite(vec![])),
        /*30*/ ty("", vec![], bitseq(0, 29)),
        /*31*/ ty("m::B", vec![], composite(vec![field(Some("b"), 0, Some("Box<u8>")), field(Some("c"), 1, Some("bool"))])),
        /*32*/ ty("m::BU", vec![], composite(vec![field(None, 1, Some("Box<bool>")), field(None, 28, Some("Compact<u8>"))])),
        /*33*/ ty("", vec![], arr(0, 1)),
        /*34*/ ty("", vec![], seq(30)),
    ]);
    let mut tried = 0;
    let mut found = None;
    for id in 0..reg.types.len() as u32 {
        tried += 1;
        let want = c13_ref(&reg, id);
        let got = panic::catch_unwind(|| scale_typegen_description::type_description(id, &reg, false));
        let bad = match (got, &want) {
            (Err(_), _) => Some("panic".to_string()),
            (Ok(Err(e)), Ok(w)) => Some(format!("error {e}, expected {w:?}")),
            (Ok(Ok(g)), Err(_)) => Some(format!("described as {g:?}, expected an error (named and unnamed fields mixed)")),
            (Ok(Ok(g)), Ok(w)) if &g != w => Some(format!("described as {g:?}, expected {w:?}")),
            _ => None,
        };
        if let Some(b) = bad { found = Some((format!("catalogue type #{id} ({})", reg.types[id as usize].ty.path.segments.join("::")), b)); break; }
    }
    report(found, tried)
}
