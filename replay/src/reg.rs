//! Tiny hand-rolled registry builder (portable form; all fields of scale-info 2.11 are pub).
use scale_info::{form::PortableForm, interner::UntrackedSymbol, Field, Path, PortableRegistry, PortableType, Type, TypeDef,
    TypeDefArray, TypeDefBitSequence, TypeDefCompact, TypeDefComposite, TypeDefPrimitive, TypeDefSequence, TypeDefTuple,
    TypeDefVariant, TypeParameter, Variant};
use std::any::TypeId;

pub fn sym(id: u32) -> UntrackedSymbol<TypeId> { UntrackedSymbol::from(id) }

pub fn path(p: &str) -> Path<PortableForm> {
    Path { segments: if p.is_empty() { vec![] } else { p.split("::").map(|s| s.to_string()).collect() } }
}

pub fn ty(p: &str, params: Vec<(&str, Option<u32>)>, def: TypeDef<PortableForm>) -> Type<PortableForm> {
    Type {
        path: path(p),
        type_params: params.into_iter().map(|(n, t)| TypeParameter { name: n.to_string(), ty: t.map(sym) }).collect(),
        type_def: def,
        docs: vec![],
    }
}

pub fn field(name: Option<&str>, id: u32, type_name: Option<&str>) -> Field<PortableForm> {
    Field { name: name.map(|s| s.to_string()), ty: sym(id), type_name: type_name.map(|s| s.to_string()), docs: vec![] }
}

pub fn composite(fields: Vec<Field<PortableForm>>) -> TypeDef<PortableForm> { TypeDef::Composite(TypeDefComposite { fields }) }
pub fn variant(vs: Vec<(&str, u8, Vec<Field<PortableForm>>)>) -> TypeDef<PortableForm> {
    TypeDef::Variant(TypeDefVariant { variants: vs.into_iter().map(|(n, i, f)| Variant { name: n.to_string(), fields: f, index: i, docs: vec![] }).collect() })
}
pub fn seq(id: u32) -> TypeDef<PortableForm> { TypeDef::Sequence(TypeDefSequence { type_param: sym(id) }) }
pub fn arr(len: u32, id: u32) -> TypeDef<PortableForm> { TypeDef::Array(TypeDefArray { len, type_param: sym(id) }) }
pub fn tuple(ids: Vec<u32>) -> TypeDef<PortableForm> { TypeDef::Tuple(TypeDefTuple { fields: ids.into_iter().map(sym).collect() }) }
pub fn compact(id: u32) -> TypeDef<PortableForm> { TypeDef::Compact(TypeDefCompact { type_param: sym(id) }) }
pub fn bitseq(store: u32, order: u32) -> TypeDef<PortableForm> { TypeDef::BitSequence(TypeDefBitSequence { bit_store_type: sym(store), bit_order_type: sym(order) }) }
pub fn prim(p: TypeDefPrimitive) -> TypeDef<PortableForm> { TypeDef::Primitive(p) }

pub fn registry(types: Vec<Type<PortableForm>>) -> PortableRegistry {
    PortableRegistry { types: types.into_iter().enumerate().map(|(i, t)| PortableType { id: i as u32, ty: t }).collect() }
}

pub const PRIMS: [TypeDefPrimitive; 15] = [
    TypeDefPrimitive::Bool, TypeDefPrimitive::Char, TypeDefPrimitive::Str, TypeDefPrimitive::U8, TypeDefPrimitive::U16,
    TypeDefPrimitive::U32, TypeDefPrimitive::U64, TypeDefPrimitive::U128, TypeDefPrimitive::U256, TypeDefPrimitive::I8,
    TypeDefPrimitive::I16, TypeDefPrimitive::I32, TypeDefPrimitive::I64, TypeDefPrimitive::I128, TypeDefPrimitive::I256,
];
