//! Concrete counterexample search and replay on the REAL crates (DESIGN.md section 4.6).
//! An aid, never the decider: it only determines whether a VIOLATION line carries a replayable
//! input or the `no-failing-input-found` suffix.
mod fmt;
mod more;
mod reg;

fn main() {
    let args: Vec<String> = std::env::args().collect();
    let code = match args.get(1).map(|s| s.as_str()) {
        Some("fmt-search") => fmt::search(args.get(2).and_then(|s| s.parse().ok()).unwrap_or(6), args.get(3).and_then(|s| s.parse().ok()).unwrap_or(0)),
        Some("fmt-one") => fmt::one(&args[2]),
        Some("fmt-repeat") => fmt::repeat(&args[2], args[3].parse().unwrap()),
        Some("c08-reach") => more::c08_reach(),
        Some("c08-compactas") => more::c08_compactas(),
        Some("c10-sanity") => more::c10_sanity(),
        Some("c10-resolve") => more::c10_resolve(),
        Some("c11-contains") => more::c11_contains(),
        Some("c12-primex") => more::c12_primex(args.get(2).and_then(|s| s.parse().ok()).unwrap_or(200), args.get(3).and_then(|s| s.parse().ok())),
        Some("c12-structure") => more::c12_structure(args.get(2).and_then(|s| s.parse().ok()).unwrap_or(40)),
        Some("c13-primnames") => more::c13_primnames(),
        Some("c13-text") => more::c13_text(),
        Some("c18-upcast") => more::c18_upcast(),
        Some("c10-mixed") => more::c10_mixed(),
        Some("c16-builders") => more::c16_builders(),
        Some("c16-subst") => more::c16_subst(),
        Some("c08-resolve") => more::c08_resolve(),
        Some("c11-validate") => more::c11_validate(),
        Some("c11-similar") => more::c11_similar(),
        Some("c08-flatten") => more::c08_flatten(),
        Some("c10-paths") => more::c10_paths(),
        Some("c08-typeir") => more::c08_typeir(),
        _ => {
            eprintln!("usage: vreplay fmt-search <maxlen> <seed> | fmt-one <string> | fmt-repeat <string> <count>");
            2
        }
    };
    std::process::exit(code);
}
