//! Concrete counterexample search and replay on the REAL crates (DESIGN.md section 4.6).
//! An aid, never the decider: it only determines whether a VIOLATION line carries a replayable
//! input or the `no-failing-input-found` suffix.
mod fmt;

fn main() {
    let args: Vec<String> = std::env::args().collect();
    let code = match args.get(1).map(|s| s.as_str()) {
        Some("fmt-search") => fmt::search(args.get(2).and_then(|s| s.parse().ok()).unwrap_or(6), args.get(3).and_then(|s| s.parse().ok()).unwrap_or(0)),
        Some("fmt-one") => fmt::one(&args[2]),
        Some("fmt-repeat") => fmt::repeat(&args[2], args[3].parse().unwrap()),
        _ => {
            eprintln!("usage: vreplay fmt-search <maxlen> <seed> | fmt-one <string> | fmt-repeat <string> <count>");
            2
        }
    };
    std::process::exit(code);
}
