use scale_typegen_description::format_type_description;
use std::panic;

fn strip_ws(s: &str) -> String {
    s.chars().filter(|c| !c.is_whitespace()).collect()
}

fn opener(c: char) -> bool { matches!(c, '{' | '(' | '<') }
fn closer(c: char) -> bool { matches!(c, '}' | ')' | '>') }
fn partner(c: char) -> char { match c { '{' => '}', '(' => ')', '<' => '>', _ => '?' } }

pub fn nested(s: &str) -> bool {
    let mut st = vec![];
    for c in s.chars() {
        if opener(c) { st.push(c) } else if closer(c) {
            match st.pop() { Some(o) if partner(o) == c => {}, _ => return false }
        }
    }
    st.is_empty()
}

/// Clause 2 oracle, from the OUTPUT TEXT ALONE -- the same checker automaton as the Verus
/// specification `run` / `indentation_ok` in units/U-FMT/lemmas.rs: a scope is "broken over
/// several lines" iff its opener is directly followed by a line break; at the first non-space
/// character after a line break the number of spaces must be 4 per open broken scope, where the
/// closer of a broken scope is written at its opener's depth and an opening brace may keep its one
/// separating space.  The text must end with all scopes closed (and a trailing break at depth 0).
pub fn indentation_ok(out: &str) -> Result<(), String> {
    let mut s: Vec<bool> = vec![];
    let mut ind: i64 = -1;
    let mut lo = false;
    for (i, c) in out.chars().enumerate() {
        if c == ' ' {
            if ind >= 0 { ind += 1; }
            lo = false;
            continue;
        }
        let top = s.last().copied().unwrap_or(false);
        let cnt = s.iter().filter(|b| **b).count() as i64;
        let d = cnt - if closer(c) && top { 1 } else { 0 };
        let good = ind < 0 || ind == 4 * d || (c == '{' && ind == 4 * d + 1);
        if !good {
            return Err(format!("before output offset {i} ({c:?}): {ind} spaces after the line break, expected {}", 4 * d));
        }
        if c == '\n' {
            if lo { if let Some(l) = s.last_mut() { *l = true; } }
            ind = 0; lo = false;
        } else if opener(c) { s.push(false); ind = -1; lo = true; }
        else if closer(c) { s.pop(); ind = -1; lo = false; }
        else { ind = -1; lo = false; }
    }
    if !s.is_empty() { return Err("text ends with open scopes".into()); }
    if !(ind == -1 || ind == 0) { return Err(format!("text ends with {ind} trailing spaces after a line break")); }
    Ok(())
}

/// Returns the list of violated clauses for one input.
pub fn check(input: &str) -> Vec<String> {
    let inp = input.to_string();
    let r = panic::catch_unwind(move || format_type_description(&inp));
    let mut v = vec![];
    match r {
        Err(e) => {
            let msg = e.downcast_ref::<String>().cloned().or_else(|| e.downcast_ref::<&str>().map(|s| s.to_string())).unwrap_or_default();
            v.push(format!("panic: {msg}"));
        }
        Ok(out) => {
            if strip_ws(&out) != strip_ws(input) {
                v.push("clause1: output and input differ after removing whitespace".to_string());
            }
            if nested(input) && !input.chars().any(|c| c == ' ' || c == '\n') {
                if let Err(e) = indentation_ok(&out) { v.push(format!("clause2: {e}")); }
            }
        }
    }
    v
}

fn esc(s: &str) -> String { s.replace('\\', "\\\\").replace('"', "\\\"").replace('\n', "\\n") }

pub fn one(input: &str) -> i32 {
    let v = check(input);
    println!("{{\"input\":\"{}\",\"violations\":[{}]}}", esc(input), v.iter().map(|s| format!("\"{}\"", esc(s))).collect::<Vec<_>>().join(","));
    if v.is_empty() { 0 } else { 1 }
}

pub fn repeat(unit: &str, count: usize) -> i32 {
    let input = unit.repeat(count);
    let v = check(&input);
    println!("{{\"input_recipe\":\"\\\"{}\\\".repeat({})\",\"violations\":[{}]}}", esc(unit), count, v.iter().map(|s| format!("\"{}\"", esc(s))).collect::<Vec<_>>().join(","));
    if v.is_empty() { 0 } else { 1 }
}

pub fn search(maxlen: usize, seed: u64) -> i32 {
    panic::set_hook(Box::new(|_| {}));
    let alpha: Vec<char> = "{}()<>,a ".chars().collect();
    let mut tried: u64 = 0;
    let mut first: Option<(String, Vec<String>)> = None;
    // exhaustive up to maxlen
    let mut idx = vec![0usize; 0];
    'outer: for len in 0..=maxlen {
        idx = vec![0; len];
        loop {
            let s: String = idx.iter().map(|i| alpha[*i]).collect();
            tried += 1;
            let v = check(&s);
            if !v.is_empty() { first = Some((s, v)); break 'outer; }
            let mut p = len;
            loop {
                if p == 0 { break; }
                p -= 1;
                idx[p] += 1;
                if idx[p] < alpha.len() { break; }
                idx[p] = 0;
                if p == 0 { p = usize::MAX; break; }
            }
            if len == 0 || p == usize::MAX { break; }
        }
    }
    // random nested strings around the 32-character look-ahead window
    if first.is_none() {
        let mut x = seed.wrapping_mul(6364136223846793005).wrapping_add(1442695040888963407) | 1;
        let mut rnd = move || { x ^= x << 13; x ^= x >> 7; x ^= x << 17; x };
        for _ in 0..20000 {
            let target = 20 + (rnd() % 60) as usize;
            let mut s = String::new();
            let mut st: Vec<char> = vec![];
            while s.len() < target {
                match rnd() % 10 {
                    0 => { s.push('{'); st.push('}') }
                    1 => { s.push('('); st.push(')') }
                    2 => { s.push('<'); st.push('>') }
                    3 | 4 => { if let Some(c) = st.pop() { s.push(c) } }
                    5 => s.push(','),
                    _ => { for _ in 0..(rnd() % 12) { s.push('a') } }
                }
            }
            while let Some(c) = st.pop() { s.push(c) }
            tried += 1;
            let v = check(&s);
            if !v.is_empty() { first = Some((s, v)); break; }
        }
    }
    match first {
        Some((s, v)) => {
            println!("{{\"found\":true,\"tried\":{tried},\"input\":\"{}\",\"violations\":[{}]}}", esc(&s), v.iter().map(|x| format!("\"{}\"", esc(x))).collect::<Vec<_>>().join(","));
            1
        }
        None => { println!("{{\"found\":false,\"tried\":{tried}}}"); 0 }
    }
}
