#!/bin/sh
# Run once after a fresh restore, offline. Builds the replay tool and warms the Verus cache.
cd "$(dirname "$0")" || exit 1
export CARGO_NET_OFFLINE=true
mkdir -p build evidence
python3 - <<'PY'
import sys
sys.path.insert(0, '.')
from vx import replay
try:
    print('replay tool:', replay.build_tool('/repo', '.'))
except Exception as e:
    print('warning: replay tool did not build:', e)
PY
exit 0
