// ===== ASSUMED CONTRACTS ON std (documented semantics; NOT proved) =====
// (1) `Vec<T> == [U]` compares lengths and then elements pairwise with `T: PartialEq<U>`;
//     `String == String` is equality of contents.
// (2) `slice.iter().any(f)` for a side-effect-free `f`: true iff `f` returns true on some element.
//     vstd's own specification of Iterator::any cannot be used for the "false" direction, so the
//     extractor rewrites `E.iter().any(f)` into `vec_iter_any(&E, f)` (rule R7) and this contract
//     stands for std's documented behaviour.
pub uninterp spec fn elem_eq<T, U>(a: &T, b: &U) -> bool;

#[verifier::external_body]
pub broadcast proof fn axiom_elem_eq_string(a: &String, b: &String)
    ensures #[trigger] elem_eq::<String, String>(a, b) == (a@ == b@)
{}

pub assume_specification<T: PartialEq<U>, U, A: std::alloc::Allocator>[ <Vec<T, A> as PartialEq<[U]>>::eq ](a: &Vec<T, A>, b: &[U]) -> (r: bool)
    ensures r == (a@.len() == b@.len() && forall|i: int| 0 <= i < a@.len() ==> elem_eq(#[trigger] &a@[i], &b@[i]));

#[verifier::external_body]
pub fn vec_iter_any<T, F: Fn(&T) -> bool>(v: &Vec<T>, f: F) -> (r: bool)
    requires forall|i: int| 0 <= i < v@.len() ==> call_requires(f, (#[trigger] &v@[i],)),
    ensures
        r ==> exists|i: int| 0 <= i < v@.len() && call_ensures(f, (#[trigger] &v@[i],), true),
        !r ==> forall|i: int| 0 <= i < v@.len() ==> call_ensures(f, (#[trigger] &v@[i],), false),
{ v.iter().any(f) }

#[verifier::external_body]
pub fn vec_iter_all<T, F: Fn(&T) -> bool>(v: &Vec<T>, f: F) -> (r: bool)
    requires forall|i: int| 0 <= i < v@.len() ==> call_requires(f, (#[trigger] &v@[i],)),
    ensures
        r ==> forall|i: int| 0 <= i < v@.len() ==> call_ensures(f, (#[trigger] &v@[i],), true),
        !r ==> exists|i: int| 0 <= i < v@.len() && call_ensures(f, (#[trigger] &v@[i],), false),
{ v.iter().all(f) }
