// ===== TRUSTED SHIM for U-FLATTEN (DerivesRegistry::flatten_recursive_derives) =====
// Opaque syn types; std collections as mathematical sets / maps (ASSUMED contracts, documented std semantics).
#[verifier::external_body]
pub struct SynPath { _p: () }
#[verifier::external_body]
pub struct SynAttribute { _p: () }
#[verifier::external_body]
pub struct SynTypePath { _p: () }
impl Clone for SynTypePath {
    #[verifier::external_body]
    fn clone(&self) -> (r: SynTypePath) ensures r == *self { unimplemented!() }
}
#[verifier::external_body]
pub struct TypegenError { _p: () }

#[verifier::external_body]
#[verifier::reject_recursive_types(T)]
pub struct HSet<T> { _p: core::marker::PhantomData<T> }
impl<T> HSet<T> {
    pub uninterp spec fn view(&self) -> Set<T>;
    #[verifier::external_body]
    pub fn new() -> (r: HSet<T>) ensures r@ == Set::<T>::empty() { unimplemented!() }
    #[verifier::external_body]
    pub fn is_empty(&self) -> (r: bool) ensures r == (forall|x: T| !self@.contains(x)) { unimplemented!() }
    /// `HashSet::extend(other_set)`: union
    #[verifier::external_body]
    pub fn extend(&mut self, other: HSet<T>) ensures final(self)@ == old(self)@.union(other@) { unimplemented!() }
}
impl<T> Clone for HSet<T> {
    #[verifier::external_body]
    fn clone(&self) -> (r: HSet<T>) ensures r@ == self@ { unimplemented!() }
}

/// `V::default()` for a map's value type
pub uninterp spec fn default_of<V>() -> V;

/// HashMap<syn::TypePath, V>
#[verifier::external_body]
#[verifier::reject_recursive_types(V)]
pub struct PMap<V> { _p: core::marker::PhantomData<V> }
impl<V> PMap<V> {
    pub uninterp spec fn view(&self) -> Map<SynTypePath, V>;
    #[verifier::external_body]
    pub fn is_empty(&self) -> (r: bool) ensures r == (forall|k: SynTypePath| !self@.contains_key(k)) { unimplemented!() }
    #[verifier::external_body]
    pub fn len(&self) -> (r: usize) ensures r == self@.dom().len(), (r == 0) == (forall|k: SynTypePath| !self@.contains_key(k)) { unimplemented!() }
    /// `HashMap::remove(&k)`: the value that was stored, if any; afterwards the key is absent
    #[verifier::external_body]
    pub fn remove(&mut self, k: &SynTypePath) -> (r: Option<V>)
        ensures final(self)@ == old(self)@.remove(*k),
            old(self)@.contains_key(*k) ==> r == Some(old(self)@[*k]),
            !old(self)@.contains_key(*k) ==> r is None,
    { unimplemented!() }
    #[verifier::external_body]
    pub fn insert(&mut self, k: SynTypePath, v: V) -> (old_v: Option<V>) ensures final(self)@ == old(self)@.insert(k, v) { unimplemented!() }
    #[verifier::external_body]
    pub fn contains_key(&self, k: &SynTypePath) -> (r: bool) ensures r == self@.contains_key(*k) { unimplemented!() }
    #[verifier::external_body]
    pub fn get(&self, k: &SynTypePath) -> (r: Option<&V>)
        ensures self@.contains_key(*k) ==> r == Some(&self@[*k]), !self@.contains_key(*k) ==> r is None,
    { unimplemented!() }
    /// `HashMap::entry(k).or_default()`
    #[verifier::external_body]
    pub fn entry_or_default(&mut self, k: SynTypePath) -> (r: &mut V)
        ensures
            *r == (if old(self)@.contains_key(k) { old(self)@[k] } else { default_of::<V>() }),
            final(self)@ == old(self)@.insert(k, *final(r)),
    { unimplemented!() }
}

/// `map.values()` followed by `all(f)` / `any(f)`: ASSUMED only to return some bool -- what it says about the values is NOT
/// specified here, so such an edit is decided by the concrete oracle alone (exit 1 only with a failing input, otherwise exit 2)
#[verifier::external_body]
#[verifier::reject_recursive_types(V)]
pub struct PMapVals<'a, V> { _p: core::marker::PhantomData<&'a V> }
impl<'a, V> PMapVals<'a, V> {
    #[verifier::external_body]
    pub fn all<F: Fn(&V) -> bool>(self, f: F) -> bool { unimplemented!() }
    #[verifier::external_body]
    pub fn any<F: Fn(&V) -> bool>(self, f: F) -> bool { unimplemented!() }
}
impl<V> PMap<V> {
    #[verifier::external_body]
    pub fn values(&self) -> PMapVals<'_, V> { unimplemented!() }
}

/// HashMap<u32, V> (used at V = syn::TypePath and V = Derives)
#[verifier::external_body]
#[verifier::reject_recursive_types(V)]
pub struct IdMap<V> { _p: core::marker::PhantomData<V> }
#[verifier::external_body]
#[verifier::reject_recursive_types(V)]
pub struct IdMapIntoIter<V> { _p: core::marker::PhantomData<V> }
pub open spec fn id_entries_of<V>(s: Seq<(u32, V)>, m: Map<u32, V>) -> bool {
    &&& forall|i: int| 0 <= i < s.len() ==> m.contains_key((#[trigger] s[i]).0) && m[s[i].0] == s[i].1
    &&& forall|k: u32| m.contains_key(k) ==> exists|i: int| 0 <= i < s.len() && (#[trigger] s[i]).0 == k
    &&& forall|i: int, j: int| 0 <= i < j < s.len() ==> (#[trigger] s[i]).0 != (#[trigger] s[j]).0
}
impl<V> IdMap<V> {
    pub uninterp spec fn view(&self) -> Map<u32, V>;
    #[verifier::external_body]
    pub fn new() -> (r: IdMap<V>) ensures r@ == Map::<u32, V>::empty() { unimplemented!() }
    #[verifier::external_body]
    pub fn get(&self, k: &u32) -> (r: Option<&V>)
        ensures self@.contains_key(*k) ==> r == Some(&self@[*k]), !self@.contains_key(*k) ==> r is None,
    { unimplemented!() }
    #[verifier::external_body]
    pub fn remove(&mut self, k: &u32) -> (r: Option<V>)
        ensures final(self)@ == old(self)@.remove(*k),
            old(self)@.contains_key(*k) ==> r == Some(old(self)@[*k]),
            !old(self)@.contains_key(*k) ==> r is None,
    { unimplemented!() }
    #[verifier::external_body]
    pub fn insert(&mut self, k: u32, v: V) -> (old_v: Option<V>) ensures final(self)@ == old(self)@.insert(k, v) { unimplemented!() }
    #[verifier::external_body]
    pub fn contains_key(&self, k: &u32) -> (r: bool) ensures r == self@.contains_key(*k) { unimplemented!() }
    #[verifier::external_body]
    pub fn len(&self) -> (r: usize) ensures r == self@.dom().len() { unimplemented!() }
    #[verifier::external_body]
    pub fn is_empty(&self) -> (r: bool) ensures r == (forall|k: u32| !self@.contains_key(k)) { unimplemented!() }
    #[verifier::external_body]
    pub fn entry_or_default(&mut self, k: u32) -> (r: &mut V)
        ensures
            *r == (if old(self)@.contains_key(k) { old(self)@[k] } else { default_of::<V>() }),
            final(self)@ == old(self)@.insert(k, *final(r)),
    { unimplemented!() }
    /// `for (k, v) in map` = `map.into_iter()` + `next()`: every entry exactly once, in arbitrary order
    #[verifier::external_body]
    pub fn into_iter(self) -> (r: IdMapIntoIter<V>) ensures r.pos() == 0, id_entries_of(r.seq(), self@) { unimplemented!() }
}
impl<V> IdMapIntoIter<V> {
    pub uninterp spec fn seq(&self) -> Seq<(u32, V)>;
    pub uninterp spec fn pos(&self) -> int;
    #[verifier::external_body]
    pub fn next(&mut self) -> (r: Option<(u32, V)>)
        ensures
            final(self).seq() == old(self).seq(),
            0 <= old(self).pos() <= old(self).seq().len(),
            old(self).pos() < old(self).seq().len() ==> r == Some(old(self).seq()[old(self).pos()]) && final(self).pos() == old(self).pos() + 1,
            old(self).pos() >= old(self).seq().len() ==> r is None && final(self).pos() == old(self).pos(),
    { unimplemented!() }
}

/// `for id in hash_set` (std HashSet<u32>, consumed): every member exactly once, in arbitrary order
#[verifier::external_body]
pub struct U32SetIntoIter { _p: () }
impl U32SetIntoIter {
    pub uninterp spec fn seq(&self) -> Seq<u32>;
    pub uninterp spec fn pos(&self) -> int;
    #[verifier::external_body]
    pub fn next(&mut self) -> (r: Option<u32>)
        ensures
            final(self).seq() == old(self).seq(),
            0 <= old(self).pos() <= old(self).seq().len(),
            old(self).pos() < old(self).seq().len() ==> r == Some(old(self).seq()[old(self).pos()]) && final(self).pos() == old(self).pos() + 1,
            old(self).pos() >= old(self).seq().len() ==> r is None && final(self).pos() == old(self).pos(),
    { unimplemented!() }
}
#[verifier::external_body]
pub fn hashset_into_iter(s: HashSet<u32>) -> (r: U32SetIntoIter)
    ensures r.pos() == 0, forall|x: u32| s@.contains(x) <==> r.seq().contains(x)
{ unimplemented!() }

/// `for &id in &hash_set` = `hash_set.iter()` + copies: every member exactly once, the set is left as it is
#[verifier::external_body]
pub fn hashset_iter_copied(s: &HashSet<u32>) -> (r: U32SetIntoIter)
    ensures r.pos() == 0, forall|x: u32| s@.contains(x) <==> r.seq().contains(x)
{ unimplemented!() }

/// `for id in hash_set.iter()`: references to every member exactly once
#[verifier::external_body]
pub struct U32SetRefIter<'a> { _p: core::marker::PhantomData<&'a u32> }
impl<'a> U32SetRefIter<'a> {
    pub uninterp spec fn seq(&self) -> Seq<u32>;
    pub uninterp spec fn pos(&self) -> int;
    #[verifier::external_body]
    pub fn next(&mut self) -> (r: Option<&'a u32>)
        ensures
            final(self).seq() == old(self).seq(),
            0 <= old(self).pos() <= old(self).seq().len(),
            old(self).pos() < old(self).seq().len() ==> r is Some && *(r->0) == old(self).seq()[old(self).pos()] && final(self).pos() == old(self).pos() + 1,
            old(self).pos() >= old(self).seq().len() ==> r is None && final(self).pos() == old(self).pos(),
    { unimplemented!() }
}
#[verifier::external_body]
pub fn hashset_iter_refs<'a>(s: &'a HashSet<u32>) -> (r: U32SetRefIter<'a>)
    ensures r.pos() == 0, forall|x: u32| s@.contains(x) <==> r.seq().contains(x)
{ unimplemented!() }

/// OPAQUE (statement abstraction): the `syn_path_for_id` map built by `filter_map(..syn_type_path..).collect::<Result<..>>()?`
/// -- its value is named by an uninterpreted function of the registry; nothing else is known about it.
pub uninterp spec fn syn_paths_of(types: &PortableRegistry) -> Result<Map<u32, SynTypePath>, TypegenError>;
#[verifier::external_body]
pub fn opaque_syn_path_for_id(types: &PortableRegistry) -> (r: Result<IdMap<SynTypePath>, TypegenError>)
    ensures match r { Ok(m) => syn_paths_of(types) == Ok::<Map<u32, SynTypePath>, TypegenError>(m@), Err(e) => syn_paths_of(types) == Err::<Map<u32, SynTypePath>, TypegenError>(e) }
{ unimplemented!() }
