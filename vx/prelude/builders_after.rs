// ===== after the extracted items of U-BUILDERS =====
/// ASSUMED: `#[derive(Default)]` on `Derives` gives two empty sets.
#[verifier::external_body]
pub broadcast proof fn axiom_derives_default()
    ensures (#[trigger] default_of::<Derives>()).derives@ == Set::<SynPath>::empty(), default_of::<Derives>().attributes@ == Set::<SynAttribute>::empty()
{}
