// ===== TRUSTED SHIM for U-SIMILAR (typegen/src/typegen/validation.rs::similar_type_paths_in_registry, substitutes.rs::syn_path) =====
// syn::Path is opaque (syn_opaque.rs).  Two uninterpreted functions name what the abstracted syn statements compute:
//   query_segs(p) -- the identifiers of the query path as strings (`path.segments.iter().map(|e| e.ident.to_string()).collect()`)
//   syn_of(s)     -- the syn::Path that `parse_quote!(#(#segments)::*)` builds from the segment strings s
pub uninterp spec fn syn_of(s: Seq<String>) -> SynPath;
pub uninterp spec fn query_segs(p: SynPath) -> Seq<Seq<char>>;
/// OPAQUE (R8''): the statement that converts the query into a scale_info::Path
#[verifier::external_body]
pub fn opaque_query_path(p: &SynPath) -> (r: Path)
    ensures r.segments@.len() == query_segs(*p).len(), forall|i: int| 0 <= i < r.segments@.len() ==> (#[trigger] r.segments@[i])@ == query_segs(*p)[i]
{ unimplemented!() }
/// OPAQUE (R8''): `parse_quote!(#(#segments)::*)` over the parsed segments (panics on a non-identifier segment: not covered)
#[verifier::external_body]
pub fn opaque_syn_of(s: &Vec<String>) -> (r: SynPath) requires s@.len() > 0 ensures r == syn_of(s@) { unimplemented!() }
pub trait TryIntoSynPath { fn syn_path(self) -> Option<SynPath>; }

// ASSUMED std contracts: Option::filter(p) keeps the value iff p holds on it; `v.iter().filter_map(f).collect::<Vec<_>>()` is the
// sequence of the Some-results of f over v, front to back.
pub assume_specification<T, P: FnOnce(&T) -> bool>[ Option::<T>::filter ](o: Option<T>, p: P) -> (r: Option<T>)
    requires o is Some ==> call_requires(p, (&o->0,)),
    ensures o is None ==> r is None,
        o is Some ==> ((r == o && call_ensures(p, (&o->0,), true)) || (r is None && call_ensures(p, (&o->0,), false)));
pub open spec fn somes<U>(o: Seq<Option<U>>) -> Seq<U> decreases o.len() {
    if o.len() == 0 { Seq::empty() } else if o.last() is Some { somes(o.drop_last()).push(o.last()->0) } else { somes(o.drop_last()) }
}
#[verifier::external_body]
pub fn vec_iter_filter_map_collect<T, U, F: Fn(&T) -> Option<U>>(v: &Vec<T>, f: F) -> (r: Vec<U>)
    requires forall|x: &T| call_requires(f, (x,))
    ensures exists|outs: Seq<Option<U>>| outs.len() == v@.len() && (forall|i: int| 0 <= i < v@.len() ==> call_ensures(f, (&v@[i],), #[trigger] outs[i])) && r@ == somes(outs)
{ unimplemented!() }

// ASSUMED: syn::Path's `==` (syn's extra-traits) is equality of the opaque values.  Vec::dedup gets a deliberately SILENT contract (nothing is
// said about the result): an edit that post-processes the collected list cannot be proved and is decided by the concrete oracle.
impl vstd::std_specs::cmp::PartialEqSpecImpl for SynPath {
    open spec fn obeys_eq_spec() -> bool { true }
    open spec fn eq_spec(&self, other: &SynPath) -> bool { *self == *other }
}
impl PartialEq for SynPath {
    #[verifier::external_body]
    fn eq(&self, other: &SynPath) -> (r: bool) { unimplemented!() }
}
pub assume_specification<T: PartialEq, A: std::alloc::Allocator>[ Vec::<T, A>::dedup ](v: &mut Vec<T, A>);
