// ===== after the extracted peekmore items =====
impl PeekChars {
    /// `input.chars().peekmore()` (rule R2): peekmore's `PeekMore::peekmore` builds exactly this value
    /// (`iterator: self, queue: Vec::new(), cursor: 0`); verified here against the contract the formatter relies on.
    pub fn new(s: &str) -> (r: PeekChars)
        ensures r.wf(), r.rest() == s@, r.cur() == 0, s@.len() <= isize::MAX as int,
    {
        let r = PeekChars { iterator: CharsShim::new(s), queue: Vec::new(), cursor: 0usize };
        proof { assert(qsome(r.queue@) =~= Seq::<char>::empty()); assert(qsome(r.queue@) + r.iterator.rest() =~= r.iterator.rest()); }
        r
    }

    // The cursor-moving part of peekmore's API is NOT used by the formatter as shipped.  The contracts below are
    // ASSUMED (external_body; transcribed from peekmore-1.3.0 src/lib.rs) and exist only so that edits which start
    // using these methods are decided instead of undecided.  `advance_cursor*` return `()` here.
    #[verifier::external_body]
    pub fn peek(&mut self) -> (r: Option<&char>)
        requires old(self).wf(),
        ensures final(self).wf(), final(self).rest() == old(self).rest(), final(self).cur() == old(self).cur(),
            old(self).cur() < old(self).rest().len() ==> r == Some(&old(self).rest()[old(self).cur() as int]),
            old(self).cur() >= old(self).rest().len() ==> r is None,
    { unimplemented!() }

    #[verifier::external_body]
    pub fn peek_nth(&mut self, n: usize) -> (r: Option<&char>)
        requires old(self).wf(),
        ensures final(self).wf(), final(self).rest() == old(self).rest(), final(self).cur() == old(self).cur(),
            n < old(self).rest().len() ==> r == Some(&old(self).rest()[n as int]),
            n >= old(self).rest().len() ==> r is None,
    { unimplemented!() }

    #[verifier::external_body]
    pub fn peek_first(&mut self) -> (r: Option<&char>)
        requires old(self).wf(),
        ensures final(self).wf(), final(self).rest() == old(self).rest(), final(self).cur() == old(self).cur(),
            0 < old(self).rest().len() ==> r == Some(&old(self).rest()[0]),
            0 == old(self).rest().len() ==> r is None,
    { unimplemented!() }

    #[verifier::external_body]
    pub fn peek_next(&mut self) -> (r: Option<&char>)
        requires old(self).wf(),
        ensures final(self).wf(), final(self).rest() == old(self).rest(),
            final(self).cur() == if old(self).cur() < usize::MAX { old(self).cur() + 1 } else { old(self).cur() },
            final(self).cur() < old(self).rest().len() ==> r == Some(&old(self).rest()[final(self).cur() as int]),
            final(self).cur() >= old(self).rest().len() ==> r is None,
    { unimplemented!() }

    #[verifier::external_body]
    pub fn advance_cursor(&mut self)
        requires old(self).wf(),
        ensures final(self).wf(), final(self).rest() == old(self).rest(),
            final(self).cur() == if old(self).cur() < usize::MAX { old(self).cur() + 1 } else { old(self).cur() },
    { unimplemented!() }

    #[verifier::external_body]
    pub fn advance_cursor_by(&mut self, n: usize)
        requires old(self).wf(), old(self).cur() + n <= usize::MAX,
        ensures final(self).wf(), final(self).rest() == old(self).rest(), final(self).cur() == old(self).cur() + n,
    { unimplemented!() }

    #[verifier::external_body]
    pub fn reset_cursor(&mut self)
        requires old(self).wf(),
        ensures final(self).wf(), final(self).rest() == old(self).rest(), final(self).cur() == 0,
    { unimplemented!() }

    #[verifier::external_body]
    pub fn next_if_eq(&mut self, expected: &char) -> (r: Option<char>)
        requires old(self).wf(),
        ensures final(self).wf(),
            (old(self).rest().len() > 0 && old(self).rest()[0] == *expected) ==> r == Some(old(self).rest()[0])
                && final(self).rest() == old(self).rest().skip(1)
                && final(self).cur() == if old(self).cur() > 0 { (old(self).cur() - 1) as nat } else { 0 },
            !(old(self).rest().len() > 0 && old(self).rest()[0] == *expected) ==> r is None
                && final(self).rest() == old(self).rest() && final(self).cur() == old(self).cur(),
    { unimplemented!() }
}
