// ===== TRUSTED SHIM: opaque stand-ins for syn::Path and proc_macro2::Ident (never inspected) =====
#[verifier::external_body]
pub struct SynPath { _p: () }
#[verifier::external_body]
pub struct Ident { _p: () }
