// ===== TRUSTED SHIM for U-DESCTEXT (description/src/description.rs: tuple_type_description, variant_type_def_type_description,
// fields_type_description) =====
// anyhow: an opaque error (the text of an error is not part of any contract)
pub struct AnyError { pub opaque: u8 }
pub type AnyResult<T> = Result<T, AnyError>;
impl AnyError {
    #[verifier::external_body]
    pub fn msg() -> (r: AnyError) { unimplemented!() }
}
// The transformer.  Three UNINTERPRETED predicates name what the callees hand back:
//   is_descr(t, s, id)          -- "s is a description (or the name) of type id": ASSUMED contract of Transformer::resolve (RefCell<HashMap>
//                                  cache + function pointers: outside both verifiers); resolve may return different texts for one id
//                                  (full description first, the name later), hence a relation, not a function
//   is_variant_descr(t, s, v)   -- what variant_type_description returns for variant v   (that function uses format!: opaque here)
//   is_field_descr(t, s, f)     -- what field_type_description returns for field f        (format!: opaque here)
pub struct DescTransformer { pub opaque: u8 }
pub uninterp spec fn is_descr(t: DescTransformer, s: Seq<char>, id: u32) -> bool;
pub uninterp spec fn is_variant_descr(t: DescTransformer, s: Seq<char>, v: Variant) -> bool;
pub uninterp spec fn is_field_descr(t: DescTransformer, s: Seq<char>, f: Field) -> bool;
impl DescTransformer {
    #[verifier::external_body]
    pub fn resolve(&self, type_id: u32) -> (r: AnyResult<String>)
        ensures r is Ok ==> is_descr(*self, r->Ok_0@, type_id)
    { unimplemented!() }
}
#[verifier::external_body]
pub fn variant_type_description(variant: &Variant, transformer: &DescTransformer) -> (r: AnyResult<String>)
    ensures r is Ok ==> is_variant_descr(*transformer, r->Ok_0@, *variant)
{ unimplemented!() }
#[verifier::external_body]
pub fn field_type_description(field: &Field, transformer: &DescTransformer) -> (r: AnyResult<String>)
    ensures r is Ok ==> is_field_descr(*transformer, r->Ok_0@, *field)
{ unimplemented!() }

// ASSUMED std contracts: `v.iter().peekable()` as a sequence with a position; `next` walks front to back and hands out references to the
// elements; `peek` is Some iff an element is left and does not move; `slice.iter().all(f)` is true iff f holds on every element.
pub struct PeekIter<'a, T> { pub seq: Ghost<Seq<T>>, pub pos: Ghost<int>, pub _p: core::marker::PhantomData<&'a T> }
impl<'a, T> PeekIter<'a, T> {
    pub open spec fn wf(self) -> bool { 0 <= self.pos@ <= self.seq@.len() }
    #[verifier::external_body]
    pub fn next(&mut self) -> (r: Option<&'a T>)
        requires old(self).wf()
        ensures final(self).wf(), final(self).seq == old(self).seq,
            old(self).pos@ < old(self).seq@.len() ==> r is Some && *r->0 == old(self).seq@[old(self).pos@] && final(self).pos@ == old(self).pos@ + 1,
            old(self).pos@ >= old(self).seq@.len() ==> r is None && final(self).pos@ == old(self).pos@,
    { unimplemented!() }
    #[verifier::external_body]
    pub fn peek(&mut self) -> (r: Option<&&'a T>)
        requires old(self).wf()
        ensures *final(self) == *old(self), r is Some <==> old(self).pos@ < old(self).seq@.len(),
    { unimplemented!() }
}
#[verifier::external_body]
pub fn peek_iter_vec<'a, T>(v: &'a Vec<T>) -> (r: PeekIter<'a, T>) ensures r.wf(), r.pos@ == 0, r.seq@ == v@ { unimplemented!() }
#[verifier::external_body]
pub fn peek_iter_slice<'a, T>(v: &'a [T]) -> (r: PeekIter<'a, T>) ensures r.wf(), r.pos@ == 0, r.seq@ == v@ { unimplemented!() }
#[verifier::external_body]
pub fn slice_iter_all<T, F: Fn(&T) -> bool>(v: &[T], f: F) -> (r: bool)
    requires forall|i: int| 0 <= i < v@.len() ==> call_requires(f, (#[trigger] &v@[i],)),
    ensures
        r ==> forall|i: int| 0 <= i < v@.len() ==> call_ensures(f, (#[trigger] &v@[i],), true),
        !r ==> exists|i: int| 0 <= i < v@.len() && call_ensures(f, (#[trigger] &v@[i],), false),
{ unimplemented!() }
