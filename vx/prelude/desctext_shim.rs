// ===== TRUSTED SHIM for U-DESCTEXT (description/src/description.rs: tuple_type_description, variant_type_def_type_description,
// fields_type_description) =====
// anyhow: an opaque error (the text of an error is not part of any contract)
pub struct AnyError { pub opaque: u8 }
pub type AnyResult<T> = Result<T, AnyError>;
impl AnyError {
    #[verifier::external_body]
    pub fn msg() -> (r: AnyError) { unimplemented!() }
}
// The transformer.  Three UNINTERPRETED predicates name what the callees hand back:
//   is_descr(t, s, id)          -- "s is a description (or the name) of type id": ASSUMED contract of Transformer::resolve (RefCell<HashMap>
//                                  cache + function pointers: outside both verifiers); resolve may return different texts for one id
//                                  (full description first, the name later), hence a relation, not a function
//   (is_variant_descr is DEFINED in units/U-DESCTEXT/lemmas.rs: variant_type_description is extracted and verified)
//   (is_field_descr is DEFINED in units/U-DESCTEXT/lemmas.rs: field_type_description is extracted and verified)
pub struct DescTransformer { pub opaque: u8 }
pub uninterp spec fn is_descr(t: DescTransformer, s: Seq<char>, id: u32) -> bool;
impl DescTransformer {
    #[verifier::external_body]
    pub fn resolve(&self, type_id: u32) -> (r: AnyResult<String>)
        ensures r is Ok ==> is_descr(*self, r->Ok_0@, type_id)
    { unimplemented!() }
}

// ASSUMED std contracts: `v.iter().peekable()` as a sequence with a position; `next` walks front to back and hands out references to the
// elements; `peek` is Some iff an element is left and does not move; `slice.iter().all(f)` is true iff f holds on every element.
pub struct PeekIter<'a, T> { pub seq: Ghost<Seq<T>>, pub pos: Ghost<int>, pub _p: core::marker::PhantomData<&'a T> }
impl<'a, T> PeekIter<'a, T> {
    pub open spec fn wf(self) -> bool { 0 <= self.pos@ <= self.seq@.len() }
    #[verifier::external_body]
    pub fn next(&mut self) -> (r: Option<&'a T>)
        requires old(self).wf()
        ensures final(self).wf(), final(self).seq == old(self).seq,
            old(self).pos@ < old(self).seq@.len() ==> r is Some && *r->0 == old(self).seq@[old(self).pos@] && final(self).pos@ == old(self).pos@ + 1,
            old(self).pos@ >= old(self).seq@.len() ==> r is None && final(self).pos@ == old(self).pos@,
    { unimplemented!() }
    #[verifier::external_body]
    pub fn peek(&mut self) -> (r: Option<&&'a T>)
        requires old(self).wf()
        ensures *final(self) == *old(self), r is Some <==> old(self).pos@ < old(self).seq@.len(),
    { unimplemented!() }
}
#[verifier::external_body]
pub fn peek_iter_vec<'a, T>(v: &'a Vec<T>) -> (r: PeekIter<'a, T>) ensures r.wf(), r.pos@ == 0, r.seq@ == v@ { unimplemented!() }
#[verifier::external_body]
pub fn peek_iter_slice<'a, T>(v: &'a [T]) -> (r: PeekIter<'a, T>) ensures r.wf(), r.pos@ == 0, r.seq@ == v@ { unimplemented!() }
#[verifier::external_body]
pub fn slice_iter_all<T, F: Fn(&T) -> bool>(v: &[T], f: F) -> (r: bool)
    requires forall|i: int| 0 <= i < v@.len() ==> call_requires(f, (#[trigger] &v@[i],)),
    ensures
        r ==> forall|i: int| 0 <= i < v@.len() ==> call_ensures(f, (#[trigger] &v@[i],), true),
        !r ==> exists|i: int| 0 <= i < v@.len() && call_ensures(f, (#[trigger] &v@[i],), false),
{ unimplemented!() }

// format!: `format!("L0{}L1", a)` / `format!("L0{}L1{}L2", a, b)` with plain `{}` holes are rewritten (rule R16) to fmt1 / fmt2, whose ASSUMED
// contract is std's: the literal pieces and the Display text of the arguments, concatenated; Display of a String / &String / &str is its contents.
pub trait FmtArg { spec fn text(&self) -> Seq<char>; }
impl FmtArg for String { open spec fn text(&self) -> Seq<char> { self@ } }
impl<'a> FmtArg for &'a String { open spec fn text(&self) -> Seq<char> { (**self)@ } }
impl<'a> FmtArg for &'a str { open spec fn text(&self) -> Seq<char> { (*self)@ } }
#[verifier::external_body]
pub fn fmt1<A: FmtArg>(l0: &str, a: &A, l1: &str) -> (r: String) ensures r@ == l0@ + a.text() + l1@ { unimplemented!() }
#[verifier::external_body]
pub fn fmt2<A: FmtArg, B: FmtArg>(l0: &str, a: &A, l1: &str, b: &B, l2: &str) -> (r: String) ensures r@ == l0@ + a.text() + l1@ + b.text() + l2@ { unimplemented!() }
/// OPAQUE (R8''): `field.type_name.as_ref().map(|e| e.contains("Box<")).unwrap_or_default()` -- whether the field's type name mentions Box
pub uninterp spec fn boxed_name(f: Field) -> bool;
#[verifier::external_body]
pub fn opaque_is_boxed(field: &Field) -> (r: bool) ensures r == boxed_name(*field) { unimplemented!() }

// ASSUMED std contracts for two calls Verus has no specification for (and whose std signatures assume_specification cannot match):
// `String == &str` compares contents (rule R14'); `ToString::to_string` on a String is a copy (rule R17).
#[verifier::external_body]
pub fn string_eq_lit(a: &String, b: &str) -> (r: bool) ensures r == (a@ == b@) { unimplemented!() }
#[verifier::external_body]
pub fn string_to_string(a: &String) -> (r: String) ensures r@ == a@ { unimplemented!() }

// Display of a u32 (array length): its decimal digits, named by the uninterpreted dec_u32.  primitive_type_description(p).into(): the name
// table is proved by the Kani harness primnames_table (U-PRIMNAMES); here it is an opaque call named by the uninterpreted prim_text.
pub uninterp spec fn dec_u32(n: u32) -> Seq<char>;
impl FmtArg for u32 { open spec fn text(&self) -> Seq<char> { dec_u32(*self) } }
pub uninterp spec fn prim_text(p: TypeDefPrimitive) -> Seq<char>;
pub struct PrimName { pub p: Ghost<TypeDefPrimitive> }
impl PrimName {
    #[verifier::external_body]
    pub fn into(self) -> (r: String) ensures r@ == prim_text(self.p@) { unimplemented!() }
}
#[verifier::external_body]
pub fn primitive_type_description(primitive: &TypeDefPrimitive) -> (r: PrimName) ensures r.p@ == *primitive { unimplemented!() }

// ty_description: the name in front of a definition comes from type_name_with_type_params (recursive, format! / join: opaque here, named by
// the uninterpreted name_text; its Primitive arm is U-PRIMNAMES' second Kani harness); `transformer.types()` hands out the registry.
pub uninterp spec fn name_text(ty: Type) -> Seq<char>;
#[verifier::external_body]
pub fn type_name_with_type_params(ty: &Type, types: &PortableRegistry) -> (r: String) ensures r@ == name_text(*ty) { unimplemented!() }
impl DescTransformer {
    #[verifier::external_body]
    pub fn types(&self) -> (r: &PortableRegistry) { unimplemented!() }
}
#[verifier::external_body]
pub fn fmt3<A: FmtArg, B: FmtArg, C: FmtArg>(l0: &str, a: &A, l1: &str, b: &B, l2: &str, c: &C, l3: &str) -> (r: String)
    ensures r@ == l0@ + a.text() + l1@ + b.text() + l2@ + c.text() + l3@ { unimplemented!() }
