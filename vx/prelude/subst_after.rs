// ===== after the extracted items of U-SUBST =====
impl TypeSubstitutes {
    #[verifier::external_body]
    fn parse_path_substitution(src_path: SynPath, target_path: SynPath) -> (r: Result<(PathSegments, Substitute), TypeSubstitutionError>)
        ensures r == parsed(src_path, target_path)
    { unimplemented!() }
}
