// ===== TRUSTED SHIM for U-DERIVES =====
// Opaque syn / proc_macro2 types (never inspected) ...
#[verifier::external_body]
pub struct SynTypePath { _p: () }
#[verifier::external_body]
pub struct SynAttribute { _p: () }
#[verifier::external_body]
pub struct TokenStream { _p: () }
#[verifier::external_body]
pub struct TypeParameters { _p: () }
pub struct ScaleInfoTypeParameter { }

impl TypeParameters {
    pub uninterp spec fn built_from(&self) -> Seq<ScaleInfoTypeParameter>;
    #[verifier::external_body]
    pub fn from_scale_info(params: &[ScaleInfoTypeParameter]) -> (r: TypeParameters)
        ensures r.built_from() == params@
    { unimplemented!() }
}

// ... and ASSUMED std contracts: std::collections::HashSet<T> / HashMap<syn::TypePath, V> over an opaque key type,
// seen as a mathematical (finite) set / map.  insert, extend (= union), get, clone, new.
#[verifier::external_body]
#[verifier::reject_recursive_types(T)]
pub struct HSet<T> { _p: core::marker::PhantomData<T> }

impl<T> HSet<T> {
    pub uninterp spec fn view(&self) -> Set<T>;

    #[verifier::external_body]
    pub fn new() -> (r: HSet<T>) ensures r@ == Set::<T>::empty() { unimplemented!() }

    #[verifier::external_body]
    pub fn insert(&mut self, value: T) -> (fresh: bool) ensures final(self)@ == old(self)@.insert(value) { unimplemented!() }

    #[verifier::external_body]
    pub fn extend(&mut self, other: HSet<T>) ensures final(self)@ == old(self)@.union(other@) { unimplemented!() }

    #[verifier::external_body]
    pub fn is_empty(&self) -> (r: bool) ensures r == (self@.len() == 0) { unimplemented!() }
}

impl<T> Clone for HSet<T> {
    #[verifier::external_body]
    fn clone(&self) -> (r: HSet<T>) ensures r@ == self@ { unimplemented!() }
}

#[verifier::external_body]
#[verifier::reject_recursive_types(V)]
pub struct PMap<V> { _p: core::marker::PhantomData<V> }

impl<V> PMap<V> {
    pub uninterp spec fn view(&self) -> Map<SynTypePath, V>;

    #[verifier::external_body]
    pub fn get(&self, k: &SynTypePath) -> (r: Option<&V>)
        ensures
            self@.contains_key(*k) ==> r == Some(&self@[*k]),
            !self@.contains_key(*k) ==> r is None,
    { unimplemented!() }
}

impl<V> PMap<V> {
    #[verifier::external_body]
    pub fn values<'a>(&'a self) -> (r: PMapValues<'a, V>) ensures r.of() == self@ { unimplemented!() }

    #[verifier::external_body]
    pub fn is_empty(&self) -> (r: bool) ensures r == (self@.dom().len() == 0) { unimplemented!() }
}

/// `HashMap::values()`: only its first `next()` is modelled: some value of the map, or None iff the map is empty.
#[verifier::external_body]
#[verifier::reject_recursive_types(V)]
pub struct PMapValues<'a, V> { _p: core::marker::PhantomData<&'a V> }

impl<'a, V> PMapValues<'a, V> {
    pub uninterp spec fn of(&self) -> Map<SynTypePath, V>;

    #[verifier::external_body]
    pub fn next(&mut self) -> (r: Option<&'a V>)
        ensures
            old(self).of().dom().len() == 0 ==> r is None,
            old(self).of().dom().len() > 0 ==> r is Some && exists|k: SynTypePath| old(self).of().contains_key(k) && *(r->0) == old(self).of()[k],
    { unimplemented!() }
}

// --- additional ASSUMED std contracts used by the builder functions (unit U-BUILDERS) ---
/// the set of items an `IntoIterator` argument yields
pub uninterp spec fn iter_items<I: IntoIterator>(it: I) -> Set<I::Item>;
/// `V::default()` for the map's value type
pub uninterp spec fn default_of<V>() -> V;

impl<T> HSet<T> {
    /// `HashSet::extend(iter)`: union with the items the iterator yields
    #[verifier::external_body]
    pub fn extend_iter<I: IntoIterator<Item = T>>(&mut self, it: I) ensures final(self)@ == old(self)@.union(iter_items(it)) { unimplemented!() }
}

impl<V> PMap<V> {
    #[verifier::external_body]
    pub fn insert(&mut self, k: SynTypePath, v: V) -> (old_v: Option<V>) ensures final(self)@ == old(self)@.insert(k, v) { unimplemented!() }

    #[verifier::external_body]
    pub fn contains_key(&self, k: &SynTypePath) -> (r: bool) ensures r == self@.contains_key(*k) { unimplemented!() }

    /// `HashMap::entry(k).or_default()`: a mutable reference to the value for `k` (inserted as `V::default()` if absent);
    /// when the borrow ends the map holds whatever was written through it
    #[verifier::external_body]
    pub fn entry_or_default(&mut self, k: SynTypePath) -> (r: &mut V)
        ensures
            *r == (if old(self)@.contains_key(k) { old(self)@[k] } else { default_of::<V>() }),
            final(self)@ == old(self)@.insert(k, *final(r)),
    { unimplemented!() }
}

// `parse_quote!(#path)` re-parses the tokens of a syn::Path into a syn::Path: ASSUMED to give the same path.
#[verifier::external_body]
pub fn parse_quote_path(p: &SynPath) -> (r: SynPath) ensures r == *p { unimplemented!() }
