// ===== TRUSTED SHIM for U-COMPACTAS =====
// Opaque stand-ins for syn::Path and proc_macro2::Ident (the two predicates never inspect them)
// and scale-info's TypeDefPrimitive (15 unit variants, same names and order as scale-info 2.11.5).
#[verifier::external_body]
pub struct SynPath { _p: () }
#[verifier::external_body]
pub struct Ident { _p: () }
pub enum TypeDefPrimitive { Bool, Char, Str, U8, U16, U32, U64, U128, U256, I8, I16, I32, I64, I128, I256 }
