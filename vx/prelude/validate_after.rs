// ===== SHIM (after the extracted items): what #[derive(Default)] generates for SettingsValidationError (ASSUMED:
// three empty vectors) =====
impl SettingsValidationError {
    #[verifier::external_body]
    pub fn default() -> (r: Self)
        ensures r.derives_for_unknown_types@.len() == 0, r.attributes_for_unknown_types@.len() == 0, r.substitutes_for_unknown_types@.len() == 0
    { unimplemented!() }
}
