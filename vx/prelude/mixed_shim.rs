// ===== SHIM for U-MIXED =====
// ASSUMED std contract: `slice.iter().all(f)` for a side-effect-free `f` (rule R7): true iff `f` holds for every element.
#[verifier::external_body]
pub fn slice_iter_all<T, F: Fn(&T) -> bool>(v: &[T], f: F) -> (r: bool)
    requires forall|i: int| 0 <= i < v@.len() ==> call_requires(f, (#[trigger] &v@[i],)),
    ensures
        r ==> forall|i: int| 0 <= i < v@.len() ==> call_ensures(f, (#[trigger] &v@[i],), true),
        !r ==> exists|i: int| 0 <= i < v@.len() && call_ensures(f, (#[trigger] &v@[i],), false),
{ v.iter().all(f) }
