// ===== TRUSTED SHIM for U-PATHS (the Compact / BitSequence arms of TypeGenerator::resolve_type_path_recurse) =====
#[verifier::external_body]
pub struct SynPath { _p: () }
impl Clone for SynPath {
    #[verifier::external_body]
    fn clone(&self) -> (r: SynPath) ensures r == *self { unimplemented!() }
}
#[verifier::external_body]
pub struct Ident { _p: () }

/// the settings fields the kept arms read (compact_type_path, decoded_bits_type_path) and the other plain-data fields, so that an
/// edit which starts consulting one of them is decided rather than undecided
pub struct TypeGeneratorSettings {
    pub types_mod_ident: Ident,
    pub should_gen_docs: bool,
    pub decoded_bits_type_path: Option<SynPath>,
    pub compact_as_type_path: Option<SynPath>,
    pub compact_type_path: Option<SynPath>,
    pub insert_codec_attributes: bool,
}
pub struct TypeGenerator<'a> { pub type_registry: &'a PortableRegistry, pub settings: &'a TypeGeneratorSettings }
