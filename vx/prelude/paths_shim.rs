// ===== TRUSTED SHIM for U-PATHS (the Compact / BitSequence arms of TypeGenerator::resolve_type_path_recurse) =====
#[verifier::external_body]
pub struct SynPath { _p: () }
impl Clone for SynPath {
    #[verifier::external_body]
    fn clone(&self) -> (r: SynPath) ensures r == *self { unimplemented!() }
}
#[verifier::external_body]
pub struct Ident { _p: () }

/// the two settings fields the kept arms read
pub struct TypeGeneratorSettings {
    pub compact_type_path: Option<SynPath>,
    pub decoded_bits_type_path: Option<SynPath>,
}
pub struct TypeGenerator<'a> { pub type_registry: &'a PortableRegistry, pub settings: &'a TypeGeneratorSettings }
