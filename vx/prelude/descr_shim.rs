// ===== SHIM for U-DESCR: opaque head of type_description (rule R8') =====
// `opaque_unformatted` stands for everything type_description does BEFORE the formatting decision
// (building the Transformer and resolving the unformatted description).  Its result is named by the
// uninterpreted spec function `unformatted_of`; nothing else is known about it.
#[verifier::external_body]
pub struct AnyhowError { _p: () }

pub uninterp spec fn unformatted_of(type_id: u32, type_registry: &PortableRegistry) -> Result<String, AnyhowError>;

#[verifier::external_body]
pub fn opaque_unformatted(type_id: u32, type_registry: &PortableRegistry) -> (r: Result<String, AnyhowError>)
    ensures r == unformatted_of(type_id, type_registry)
{ unimplemented!() }
