// ===== TRUSTED SHIM for U-SUBST =====
#[verifier::external_body]
pub struct SynPath { _p: () }
#[verifier::external_body]
pub struct Substitute { _p: () }
#[verifier::external_body]
pub struct TypeSubstitutionError { _p: () }
pub struct AbsolutePath(pub SynPath);
pub type PathSegments = Vec<String>;

/// ASSUMED std contract: HashMap<Vec<String>, Substitute> as a mathematical map keyed by the segment strings' contents.
#[verifier::external_body]
pub struct SMap { _p: () }

pub open spec fn key_of(k: Vec<String>) -> Seq<Seq<char>> { Seq::new(k@.len(), |i: int| k@[i]@) }

impl SMap {
    pub uninterp spec fn view(&self) -> Map<Seq<Seq<char>>, Substitute>;

    #[verifier::external_body]
    pub fn new() -> (r: SMap) ensures r@ == Map::<Seq<Seq<char>>, Substitute>::empty() { unimplemented!() }

    /// `HashMap::insert`: the new value replaces any old one
    #[verifier::external_body]
    pub fn insert(&mut self, k: Vec<String>, v: Substitute) -> (old_v: Option<Substitute>)
        ensures final(self)@ == old(self)@.insert(key_of(k), v)
    { unimplemented!() }

    #[verifier::external_body]
    pub fn remove(&mut self, k: &Vec<String>) -> (old_v: Option<Substitute>) ensures final(self)@ == old(self)@.remove(key_of(*k)) { unimplemented!() }

    #[verifier::external_body]
    pub fn contains_key(&self, k: &Vec<String>) -> (r: bool) ensures r == self@.contains_key(key_of(*k)) { unimplemented!() }
    /// `HashMap::reserve`: capacity only, the contents are unchanged
    #[verifier::external_body]
    pub fn reserve(&mut self, additional: usize) ensures final(self)@ == old(self)@ { unimplemented!() }

    /// `HashMap::entry(k).or_insert(v)`: inserts only if the key is absent
    #[verifier::external_body]
    pub fn entry_or_insert(&mut self, k: Vec<String>, v: Substitute)
        ensures final(self)@ == if old(self)@.contains_key(key_of(k)) { old(self)@ } else { old(self)@.insert(key_of(k), v) }
    { unimplemented!() }
}

/// OPAQUE: `TypeSubstitutes::parse_path_substitution` (syn surgery: absolute-path and generic-form checks, parameter
/// mapping).  Its result is named by an uninterpreted spec function; nothing else is known about it.
pub uninterp spec fn parsed(source: SynPath, target: SynPath) -> Result<(Vec<String>, Substitute), TypeSubstitutionError>;

/// OPAQUE: `path_segments(&syn::Path)` (the identifiers of the path as strings); ASSUMED consistent with the key
/// `parse_path_substitution` computes for the same source path.
pub uninterp spec fn segments_of(p: SynPath) -> Vec<String>;
#[verifier::external_body]
pub fn path_segments(p: &SynPath) -> (r: Vec<String>)
    ensures r == segments_of(*p), forall|t: SynPath| parsed(*p, t) is Ok ==> key_of(#[trigger] parsed(*p, t)->Ok_0.0) == key_of(r)
{ unimplemented!() }

/// `impl IntoIterator<Item = (syn::Path, AbsolutePath)>` argument of `extend`: a shim iterator over a ghost sequence
/// (ASSUMED: into_iter() + next() yield the items front to back, each once)
#[verifier::external_body]
pub struct SubstElems { _p: () }
impl SubstElems {
    pub uninterp spec fn seq(&self) -> Seq<(SynPath, AbsolutePath)>;
    pub uninterp spec fn pos(&self) -> int;
    #[verifier::external_body]
    pub fn into_iter(self) -> (r: SubstElems) ensures r.seq() == self.seq(), r.pos() == self.pos() { unimplemented!() }
    /// `Iterator::size_hint`: some bounds (nothing is assumed about them)
    #[verifier::external_body]
    pub fn size_hint(&self) -> (usize, Option<usize>) { unimplemented!() }
    #[verifier::external_body]
    pub fn next(&mut self) -> (r: Option<(SynPath, AbsolutePath)>)
        ensures
            final(self).seq() == old(self).seq(),
            0 <= old(self).pos() <= old(self).seq().len(),
            old(self).pos() < old(self).seq().len() ==> r == Some(old(self).seq()[old(self).pos()]) && final(self).pos() == old(self).pos() + 1,
            old(self).pos() >= old(self).seq().len() ==> r is None && final(self).pos() == old(self).pos(),
    { unimplemented!() }
}
