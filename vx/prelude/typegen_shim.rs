// ===== SHIM: TypeGenerator keeps only the field resolve_type touches (`settings` is dropped) =====
pub struct TypeGenerator<'a> { pub type_registry: &'a PortableRegistry }

impl<'a> TypeGenerator<'a> {
    /// same body as upstream (`self.type_registry`)
    pub fn types(&self) -> (r: &PortableRegistry) ensures r == self.type_registry { self.type_registry }
}
