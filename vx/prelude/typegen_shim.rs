// ===== SHIM: TypeGenerator keeps only the field resolve_type touches (`settings` is dropped) =====
pub struct TypeGenerator<'a> { pub type_registry: &'a PortableRegistry }
