// ===== after the extracted items of U-MIXED: shim receiver and the OPAQUE TAIL (rule R8) =====
#[verifier::external_body]
pub struct TypeParameters { _p: () }
pub struct TypeGenerator<'a> { pub type_registry: &'a PortableRegistry }

/// everything create_composite_ir_kind does once the field list is known to be all-named or all-unnamed
/// (resolving field type paths, parsing identifiers, marking used parameters): NO postcondition.
#[verifier::external_body]
pub fn opaque_tail_composite<'a>(g: &TypeGenerator<'a>, fields: &[Field], type_params: &mut TypeParameters, all_fields_named: bool, all_fields_unnamed: bool) -> Result<CompositeIRKind, TypegenError> { unimplemented!() }
