// ===== TRUSTED SHIM: scale-info 2.11.5 portable-form datatypes (public fields only) =====
// Field names, order and types mirror scale-info's `pub` fields (PortableForm: String = String,
// Type = UntrackedSymbol<TypeId>); the private PhantomData marker of UntrackedSymbol is dropped.
// `PortableRegistry::resolve` is NOT part of this shim: units that need it extract its body from scale-info's own
// source (registry:scale-info/src/portable.rs) and verify it (units/U-SCALEINFO/contracts.vc).
#[derive(Clone, Copy)]
pub struct UntrackedSymbol { pub id: u32 }

pub struct Path { pub segments: Vec<String> }

pub struct TypeParameter { pub name: String, pub ty: Option<UntrackedSymbol> }

pub struct Field { pub name: Option<String>, pub ty: UntrackedSymbol, pub type_name: Option<String>, pub docs: Vec<String> }

pub struct Variant { pub name: String, pub fields: Vec<Field>, pub index: u8, pub docs: Vec<String> }

pub struct TypeDefComposite { pub fields: Vec<Field> }
pub struct TypeDefVariant { pub variants: Vec<Variant> }
pub struct TypeDefSequence { pub type_param: UntrackedSymbol }
pub struct TypeDefArray { pub len: u32, pub type_param: UntrackedSymbol }
pub struct TypeDefTuple { pub fields: Vec<UntrackedSymbol> }
#[derive(Clone, Copy, PartialEq, Eq)]
pub enum TypeDefPrimitive { Bool, Char, Str, U8, U16, U32, U64, U128, U256, I8, I16, I32, I64, I128, I256 }
pub struct TypeDefCompact { pub type_param: UntrackedSymbol }
pub struct TypeDefBitSequence { pub bit_store_type: UntrackedSymbol, pub bit_order_type: UntrackedSymbol }

pub enum TypeDef {
    Composite(TypeDefComposite),
    Variant(TypeDefVariant),
    Sequence(TypeDefSequence),
    Array(TypeDefArray),
    Tuple(TypeDefTuple),
    Primitive(TypeDefPrimitive),
    Compact(TypeDefCompact),
    BitSequence(TypeDefBitSequence),
}

pub struct Type { pub path: Path, pub type_params: Vec<TypeParameter>, pub type_def: TypeDef, pub docs: Vec<String> }

pub struct PortableType { pub id: u32, pub ty: Type }

pub struct PortableRegistry { pub types: Vec<PortableType> }

// ASSUMED contracts of scale-info's `Path` accessors (read from scale-info 2.11.5 src/ty/path.rs:
// `namespace` = all segments but the last, or empty; `ident` = a clone of the last segment; `is_empty`).
// The code under contract as shipped does not call them; they are modelled so that edits which do are decided.
impl Path {
    #[verifier::external_body]
    pub fn namespace(&self) -> (r: &[String])
        ensures r@ == (if self.segments@.len() > 0 { self.segments@.drop_last() } else { Seq::<String>::empty() })
    { unimplemented!() }

    #[verifier::external_body]
    pub fn ident(&self) -> (r: Option<String>)
        ensures self.segments@.len() == 0 ==> r is None, self.segments@.len() > 0 ==> r is Some && r->0@ == self.segments@.last()@
    { unimplemented!() }

    #[verifier::external_body]
    pub fn is_empty(&self) -> (r: bool) ensures r == (self.segments@.len() == 0) { unimplemented!() }
}
