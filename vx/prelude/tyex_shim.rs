// ===== TRUSTED SHIM for U-TYEX (description/src/type_example/scale_value.rs: ty_example, fields_type_example) =====
// (1) scale-value 0.18 datatypes, public fields only (scale_value::{Value, ValueDef, Composite, Variant, Primitive, BitSequence});
//     scale-value's `Variant` is named ValVariant here because the single verified file also holds scale-info's `Variant`.
pub struct Value<T = ()> { pub value: ValueDef<T>, pub context: T }
// ASSUMED: the derived PartialEq / Clone of scale-value's Value<()> are structural equality / identity
impl vstd::std_specs::cmp::PartialEqSpecImpl for Value<()> {
    open spec fn obeys_eq_spec() -> bool { true }
    open spec fn eq_spec(&self, other: &Value<()>) -> bool { *self == *other }
}
impl PartialEq for Value<()> {
    #[verifier::external_body]
    fn eq(&self, other: &Value<()>) -> (r: bool) { unimplemented!() }
}
impl Clone for Value<()> {
    #[verifier::external_body]
    fn clone(&self) -> (r: Value<()>) ensures r == *self { unimplemented!() }
}
pub enum ValueDef<T> { Composite(Composite<T>), Variant(ValVariant<T>), BitSequence(BitSequence), Primitive(Primitive) }
pub enum Composite<T> { Named(Vec<(String, Value<T>)>), Unnamed(Vec<Value<T>>) }
pub struct ValVariant<T> { pub name: String, pub values: Composite<T> }
pub enum Primitive { Bool(bool), Char(char), String(String), U128(u128), I128(i128), U256([u8; 32]), I256([u8; 32]) }
pub struct BitSequence { pub bits: Vec<bool> }

// (2) anyhow: an opaque error; `anyhow!(..)` is rewritten to AnyError::msg() (the text of an error is not part of any contract)
pub struct AnyError { pub opaque: u8 }
pub type AnyResult<T> = Result<T, AnyError>;
impl AnyError {
    #[verifier::external_body]
    pub fn msg() -> (r: AnyError) { unimplemented!() }
}

// (3) the transformer.  `valid(t, v, id)` -- "scale-encode accepts value v against type id of t's registry" -- is UNINTERPRETED.
//     ASSUMED contract of Transformer::resolve (the induction hypothesis of the partial-correctness argument: resolve(id) hands back what
//     the policy ty_example returned for the type with that id, or a cached clone of it): an Ok result is valid for the id asked for.
//     Termination of the mutual recursion resolve -> ty_example -> resolve is NOT covered (RefCell<HashMap> cache; DESIGN 6, C12).
pub struct ValueTransformer { pub opaque: u8 }
pub uninterp spec fn valid(t: ValueTransformer, v: Value, id: u32) -> bool;
impl ValueTransformer {
    #[verifier::external_body]
    pub fn resolve(&self, type_id: u32) -> (r: AnyResult<Value>)
        ensures r is Ok ==> valid(*self, r->Ok_0, type_id)
    { unimplemented!() }
}
/// the random number generator behind `&mut *transformer.state().borrow_mut()` (RefCell<ChaCha8Rng>): an opaque handle
pub struct RngHandle { pub opaque: u8 }
impl RngHandle {
    #[verifier::external_body]
    pub fn of(t: &ValueTransformer) -> (r: RngHandle) { unimplemented!() }
}

// (4) field-list iterators.  `impl Iterator<Item = (Option<impl AsRef<str>>, u32)> + Clone` becomes FieldsIter<N>: the sequence of
//     items it will yield and a position, both ghost.  ASSUMED std contracts: Clone of a `slice::Iter` + `Map` = the same iterator;
//     `next` walks front to back; `all(f)` is true iff f holds on every remaining item; `v.iter().map(f)` yields f(&v[i]) in order.
pub trait NameLike: Sized {
    spec fn nview(self) -> Seq<char>;
    /// AsRef<str>::as_ref followed by Into<String>::into (NameRef::into below): the same characters
    fn as_ref(&self) -> (r: NameRef) ensures r.s@ == self.nview();
}
pub struct NameRef { pub s: Ghost<Seq<char>> }
impl NameRef {
    #[verifier::external_body]
    pub fn into(self) -> (r: String) ensures r@ == self.s@ { unimplemented!() }
}
impl<'a> NameLike for &'a String {
    open spec fn nview(self) -> Seq<char> { (*self)@ }
    #[verifier::external_body]
    fn as_ref(&self) -> (r: NameRef) { unimplemented!() }
}
impl<'a> NameLike for &'a str {
    open spec fn nview(self) -> Seq<char> { self@ }
    #[verifier::external_body]
    fn as_ref(&self) -> (r: NameRef) { unimplemented!() }
}
pub struct FieldsIter<N> { pub seq: Ghost<Seq<(Option<N>, u32)>>, pub pos: Ghost<int> }
impl<N> FieldsIter<N> {
    pub open spec fn wf(self) -> bool { 0 <= self.pos@ <= self.seq@.len() }
    #[verifier::external_body]
    pub fn clone(&self) -> (r: Self) ensures r == *self { unimplemented!() }
    #[verifier::external_body]
    pub fn next(&mut self) -> (r: Option<(Option<N>, u32)>)
        requires old(self).wf()
        ensures final(self).wf(), final(self).seq == old(self).seq,
            old(self).pos@ < old(self).seq@.len() ==> r == Some(old(self).seq@[old(self).pos@]) && final(self).pos@ == old(self).pos@ + 1,
            old(self).pos@ >= old(self).seq@.len() ==> r is None && final(self).pos@ == old(self).pos@,
    { unimplemented!() }
    #[verifier::external_body]
    pub fn all<F: Fn((Option<N>, u32)) -> bool>(self, f: F) -> (r: bool)
        requires self.wf(), forall|x: (Option<N>, u32)| call_requires(f, (x,))
        ensures r ==> forall|i: int| self.pos@ <= i < self.seq@.len() ==> call_ensures(f, (#[trigger] self.seq@[i],), true),
                !r ==> exists|i: int| self.pos@ <= i < self.seq@.len() && call_ensures(f, (#[trigger] self.seq@[i],), false),
    { unimplemented!() }
    /// modelled although the code as shipped does not call it (so that an edit which does is decided)
    #[verifier::external_body]
    pub fn count(self) -> (r: usize) requires self.wf() ensures r == self.seq@.len() - self.pos@ { unimplemented!() }
}
#[verifier::external_body]
pub fn vec_iter_map<'a, T, N, F: Fn(&'a T) -> (Option<N>, u32)>(v: &'a Vec<T>, f: F) -> (r: FieldsIter<N>)
    requires forall|x: &T| call_requires(f, (x,))
    ensures r.wf(), r.pos@ == 0, r.seq@.len() == v@.len(), forall|i: int| 0 <= i < v@.len() ==> call_ensures(f, (&v@[i],), #[trigger] r.seq@[i])
{ unimplemented!() }

// (5) ASSUMED contracts of the scale-value constructors the two functions call (read from scale-value 0.18 src/value_type.rs):
//     Composite::named / unnamed collect their argument into the Named / Unnamed variant; Value::unnamed_composite wraps that in a
//     Value with unit context.
impl<T> Composite<T> {
    #[verifier::external_body]
    pub fn named(vals: Vec<(String, Value<T>)>) -> (r: Self) ensures r == Composite::Named(vals) { unimplemented!() }
    #[verifier::external_body]
    pub fn unnamed(vals: Vec<Value<T>>) -> (r: Self) ensures r == Composite::Unnamed(vals) { unimplemented!() }
}
pub trait IntoVals: Sized { spec fn vals(self) -> Seq<Value>; }
impl IntoVals for Vec<Value> { open spec fn vals(self) -> Seq<Value> { self@ } }
impl IntoVals for [Value; 1] { open spec fn vals(self) -> Seq<Value> { self@ } }
impl IntoVals for [Value; 2] { open spec fn vals(self) -> Seq<Value> { self@ } }
impl IntoVals for [Value; 3] { open spec fn vals(self) -> Seq<Value> { self@ } }
impl Value {
    #[verifier::external_body]
    pub fn unnamed_composite<I: IntoVals>(vals: I) -> (r: Value)
        ensures r.value is Composite, r.value->Composite_0 is Unnamed, r.value->Composite_0->Unnamed_0@ == vals.vals()
    { unimplemented!() }
    #[verifier::external_body]
    pub fn without_context(value: ValueDef<()>) -> (r: Value) ensures r.value == value { unimplemented!() }
    #[verifier::external_body]
    pub fn named_composite(vals: Vec<(String, Value)>) -> (r: Value)
        ensures r.value is Composite, r.value->Composite_0 == Composite::<()>::Named(vals)
    { unimplemented!() }
}

// (6) the parts of ty_example that are NOT under contract here (opaque calls):
//     - primitive_type_def_example: its contract below (the kind and range of the value per primitive) is what the Kani harnesses
//       primex_* prove on the real function (U-PRIMEX); here it is assumed;
//     - the BitSequence arm (rng-driven loop, R8'''): some bit sequence.
//     (opaque_choose_variant / opaque_array_elements are no longer used: the draw of a variant and the Array arm are verbatim, see
//      ChooseShim and range_map_collect_result.)
pub open spec fn prim_shape(v: Value, p: TypeDefPrimitive) -> bool {
    v.value is Primitive && match p {
        TypeDefPrimitive::Bool => v.value->Primitive_0 is Bool,
        TypeDefPrimitive::Char => v.value->Primitive_0 is Char,
        TypeDefPrimitive::Str => v.value->Primitive_0 is String,
        TypeDefPrimitive::U8 => v.value->Primitive_0 is U128 && v.value->Primitive_0->U128_0 < 0x100,
        TypeDefPrimitive::U16 => v.value->Primitive_0 is U128 && v.value->Primitive_0->U128_0 < 0x10000,
        TypeDefPrimitive::U32 => v.value->Primitive_0 is U128 && v.value->Primitive_0->U128_0 < 0x1_0000_0000,
        TypeDefPrimitive::U64 => v.value->Primitive_0 is U128 && v.value->Primitive_0->U128_0 < 0x1_0000_0000_0000_0000,
        TypeDefPrimitive::U128 => v.value->Primitive_0 is U128,
        TypeDefPrimitive::U256 => v.value->Primitive_0 is U256,
        TypeDefPrimitive::I8 => v.value->Primitive_0 is I128 && -0x80 <= v.value->Primitive_0->I128_0 < 0x80,
        TypeDefPrimitive::I16 => v.value->Primitive_0 is I128 && -0x8000 <= v.value->Primitive_0->I128_0 < 0x8000,
        TypeDefPrimitive::I32 => v.value->Primitive_0 is I128 && -0x8000_0000 <= v.value->Primitive_0->I128_0 < 0x8000_0000,
        TypeDefPrimitive::I64 => v.value->Primitive_0 is I128 && -0x8000_0000_0000_0000 <= v.value->Primitive_0->I128_0 < 0x8000_0000_0000_0000,
        TypeDefPrimitive::I128 => v.value->Primitive_0 is I128,
        TypeDefPrimitive::I256 => v.value->Primitive_0 is I256,
    }
}
#[verifier::external_body]
pub fn primitive_type_def_example(primitive: &TypeDefPrimitive, rng: RngHandle) -> (v: Value)
    ensures prim_shape(v, *primitive)
{ unimplemented!() }
// ASSUMED contracts: rand's SliceRandom::choose on a Vec -- None iff the list is empty, else a reference to one of its elements (which one
// is the rng's business); Option::ok_or_else is specified by vstd.
pub trait ChooseShim<T>: Sized {
    spec fn items(&self) -> Seq<T>;
    fn choose(&self, rng: RngHandle) -> (r: Option<&T>)
        ensures self.items().len() == 0 ==> r is None,
            self.items().len() > 0 ==> r is Some && exists|k: int| 0 <= k < self.items().len() && *r->0 == #[trigger] self.items()[k];
}
impl<T> ChooseShim<T> for Vec<T> {
    open spec fn items(&self) -> Seq<T> { self@ }
    #[verifier::external_body]
    fn choose(&self, rng: RngHandle) -> (r: Option<&T>) { unimplemented!() }
}
#[verifier::external_body]
pub fn opaque_choose_variant<'a>(variant: &'a TypeDefVariant, transformer: &ValueTransformer) -> (r: AnyResult<&'a Variant>)
    ensures r is Ok ==> exists|k: int| 0 <= k < variant.variants@.len() && *r->Ok_0 == #[trigger] variant.variants@[k]
{ unimplemented!() }
// ASSUMED std contract: `(lo..hi).map(f).collect::<Result<Vec<_>, _>>()` (and `lo..=hi`) -- an Ok result holds f(lo), f(lo + 1), ... in order,
// one per index of the range (rule R13'); an Err is the first error f returned.
pub open spec fn range_len(lo: u32, hi: u32, inclusive: bool) -> int {
    if inclusive { if hi >= lo { hi - lo + 1 } else { 0 } } else { if hi > lo { hi - lo } else { 0 } }
}
#[verifier::external_body]
pub fn range_map_collect_result<T, F: Fn(u32) -> AnyResult<T>>(lo: u32, hi: u32, inclusive: bool, f: F) -> (r: AnyResult<Vec<T>>)
    requires forall|i: u32| call_requires(f, (i,))
    ensures r is Ok ==> r->Ok_0@.len() == range_len(lo, hi, inclusive)
        && forall|k: int| 0 <= k < r->Ok_0@.len() ==> call_ensures(f, ((lo + k) as u32,), Ok::<T, AnyError>(#[trigger] r->Ok_0@[k]))
{ unimplemented!() }
#[verifier::external_body]
pub fn opaque_array_elements(transformer: &ValueTransformer, array: &TypeDefArray) -> (r: AnyResult<Vec<Value>>)
    ensures r is Ok ==> r->Ok_0@.len() == array.len && forall|i: int| 0 <= i < r->Ok_0@.len() ==> valid(*transformer, #[trigger] r->Ok_0@[i], array.type_param.id)
{ unimplemented!() }
#[verifier::external_body]
pub fn opaque_bit_sequence(transformer: &ValueTransformer) -> (r: AnyResult<Value>)
    ensures r is Ok ==> r->Ok_0.value is BitSequence
{ unimplemented!() }
