// ===== SHIM (after the extracted items): the subset of TypeGeneratorSettings / TypeGenerator that
// upcast_composite and add_as_compact_derive could touch (all fields except `substitutes` and `alloc_crate_path`), and the derived Clone impls (ASSUMED structural). =====
pub struct TypeGeneratorSettings {
    pub types_mod_ident: Ident,
    pub should_gen_docs: bool,
    pub derives: DerivesRegistry,
    pub decoded_bits_type_path: Option<SynPath>,
    pub compact_as_type_path: Option<SynPath>,
    pub compact_type_path: Option<SynPath>,
    pub insert_codec_attributes: bool,
}

pub struct TypeGenerator<'a> { pub settings: &'a TypeGeneratorSettings }

impl Clone for Derives {
    // what #[derive(Clone)] generates: field-wise clone (verified against the HSet clone contract)
    fn clone(&self) -> (r: Derives)
        ensures r.derives@ == self.derives@, r.attributes@ == self.attributes@
    {
        Derives { derives: self.derives.clone(), attributes: self.attributes.clone() }
    }
}

impl Clone for CompositeIR {
    #[verifier::external_body]
    fn clone(&self) -> (r: CompositeIR) ensures r == *self { unimplemented!() }
}
