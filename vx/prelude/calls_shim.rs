// ===== SHIM for U-CALLS: opaque result type and OPAQUE TAILS (rule R8) =====
// The two functions below stand for "everything after the anchor line" of ensure_unique_type_paths and
// generate_types_mod.  They have NO postcondition: whatever the dropped code does, the contracts proved for the
// kept prefix hold.  (Sound for "if the prefix returns early, the function returns that"; says nothing else.)
#[verifier::external_body]
pub struct ModuleIR { _p: () }

#[verifier::external_body]
pub fn opaque_tail_dedup(types: &mut PortableRegistry) -> Result<(), TypegenError> { unimplemented!() }

#[verifier::external_body]
pub fn opaque_tail_generate<'a>(g: &TypeGenerator<'a>) -> Result<ModuleIR, TypegenError> { unimplemented!() }
