// ===== SHIM (after the extracted items of U-TYPEIR): the pieces of create_type_ir that build syn values are opaque calls whose
// results are named by uninterpreted spec functions; nothing else is known about them =====
pub uninterp spec fn syn_path_of(ty: Type) -> Result<SynTypePath, TypegenError>;
/// OPAQUE: utils::syn_type_path (scale-info path -> syn::TypePath)
#[verifier::external_body]
pub fn syn_type_path(ty: &Type) -> (r: Result<SynTypePath, TypegenError>) ensures r == syn_path_of(*ty) { unimplemented!() }

/// OPAQUE (R8''): `ty.path.ident().map(|e| syn::parse_str::<Ident>(&e)).expect(..)?`
#[verifier::external_body]
pub fn opaque_type_name(ty: &Type) -> Result<Ident, TypegenError> { unimplemented!() }

impl TypeParameters {
    /// OPAQUE: TypeParameters::from_scale_info(&ty.type_params)
    #[verifier::external_body]
    pub fn from_registry_params(params: &Vec<TypeParameter>) -> TypeParameters { unimplemented!() }
}

impl<'a> TypeGenerator<'a> {
    /// OPAQUE: docs_from_scale_info (quote!)
    #[verifier::external_body]
    pub fn docs_from_scale_info(&self, docs: &[String]) -> TokenStream { unimplemented!() }

    /// OPAQUE: create_composite_ir_kind (its head is U-MIXED; the rest resolves field type paths through syn); the contract
    /// of create_type_ir is stated over whatever kind it returns
    #[verifier::external_body]
    pub fn create_composite_ir_kind(&self, fields: &[Field], type_params: &mut TypeParameters) -> Result<CompositeIRKind, TypegenError> { unimplemented!() }

    /// OPAQUE (R8''): the Variant arm's `variant.variants.iter().map(|v| ..).collect::<Result<Vec<(u8, CompositeIR)>, _>>()`
    #[verifier::external_body]
    pub fn opaque_variants(&self, variant: &TypeDefVariant, type_params: &mut TypeParameters) -> Result<Vec<(u8, CompositeIR)>, TypegenError> { unimplemented!() }
}
