// ===== TRUSTED SHIM: peekmore::PeekMoreIterator<std::str::Chars> (peekmore 1.3.0) =====
// Abstract state: `rest()` = the characters not yet consumed.  The formatter never moves the
// peek cursor and `Chars` is fused, so `next`/`peek_amount` behave as stated (read from
// peekmore-1.3.0/src/lib.rs: `next`, `peek_range`, `fill_queue`).  These three bodies are
// `external_body`: ASSUMED, not proved.  The bound `s@.len() <= isize::MAX` is Rust's allocation
// guarantee for any `&str` (at most isize::MAX bytes, hence at most that many chars).
#[verifier::external_body]
pub struct PeekChars { _p: () }

impl PeekChars {
    pub uninterp spec fn rest(&self) -> Seq<char>;

    #[verifier::external_body]
    pub fn new(s: &str) -> (r: PeekChars)
        ensures r.rest() == s@, s@.len() <= isize::MAX as int,
    { unimplemented!() }

    #[verifier::external_body]
    pub fn next(&mut self) -> (r: Option<char>)
        ensures
            old(self).rest().len() == 0 ==> r is None && final(self).rest() == old(self).rest(),
            old(self).rest().len() > 0 ==> r == Some(old(self).rest()[0]) && final(self).rest() == old(self).rest().skip(1),
    { unimplemented!() }

    #[verifier::external_body]
    pub fn peek_amount(&mut self, n: usize) -> (r: &[Option<char>])
        ensures
            final(self).rest() == old(self).rest(),
            r@.len() == n,
            forall|i: int| 0 <= i < n ==> #[trigger] r@[i] == (if i < old(self).rest().len() { Some(old(self).rest()[i]) } else { None::<char> }),
    { unimplemented!() }
}
