// ===== TRUSTED SHIM: peekmore::PeekMoreIterator<std::str::Chars> (peekmore 1.3.0) =====
// Abstract state: `rest()` = the characters not yet consumed, `cursor()` = the peek cursor
// (an offset into `rest()`).  Contracts transcribed from peekmore-1.3.0/src/lib.rs (`next`,
// `peek`, `peek_nth`, `peek_first`, `peek_next`, `advance_cursor`, `advance_cursor_by`,
// `reset_cursor`, `cursor`, `peek_range`, `peek_amount`, `next_if_eq`; `Chars` is fused, so the
// queue of `Option`s behaves like `rest()` followed by `None`s).  All bodies are `external_body`:
// ASSUMED, not proved.  The formatter as shipped only uses `next` and `peek_amount`; the other
// methods are modelled so that edits which start using them are still decided instead of undecided.
// `advance_cursor*` return `()` here (upstream returns `&mut Self` for chaining).
// The bound `s@.len() <= isize::MAX` is Rust's allocation guarantee for any `&str`.
#[verifier::external_body]
pub struct PeekChars { _p: () }

impl PeekChars {
    pub uninterp spec fn rest(&self) -> Seq<char>;
    pub uninterp spec fn cursor(&self) -> nat;

    #[verifier::external_body]
    pub fn new(s: &str) -> (r: PeekChars)
        ensures r.rest() == s@, r.cursor() == 0, s@.len() <= isize::MAX as int,
    { unimplemented!() }

    #[verifier::external_body]
    pub fn next(&mut self) -> (r: Option<char>)
        ensures
            old(self).rest().len() == 0 ==> r is None && final(self).rest() == old(self).rest(),
            old(self).rest().len() > 0 ==> r == Some(old(self).rest()[0]) && final(self).rest() == old(self).rest().skip(1),
            final(self).cursor() == if old(self).cursor() > 0 { (old(self).cursor() - 1) as nat } else { 0 },
    { unimplemented!() }

    #[verifier::external_body]
    pub fn peek(&mut self) -> (r: Option<&char>)
        ensures
            final(self).rest() == old(self).rest(), final(self).cursor() == old(self).cursor(),
            old(self).cursor() < old(self).rest().len() ==> r == Some(&old(self).rest()[old(self).cursor() as int]),
            old(self).cursor() >= old(self).rest().len() ==> r is None,
    { unimplemented!() }

    #[verifier::external_body]
    pub fn peek_nth(&mut self, n: usize) -> (r: Option<&char>)
        ensures
            final(self).rest() == old(self).rest(), final(self).cursor() == old(self).cursor(),
            n < old(self).rest().len() ==> r == Some(&old(self).rest()[n as int]),
            n >= old(self).rest().len() ==> r is None,
    { unimplemented!() }

    #[verifier::external_body]
    pub fn peek_first(&mut self) -> (r: Option<&char>)
        ensures
            final(self).rest() == old(self).rest(), final(self).cursor() == old(self).cursor(),
            0 < old(self).rest().len() ==> r == Some(&old(self).rest()[0]),
            0 == old(self).rest().len() ==> r is None,
    { unimplemented!() }

    #[verifier::external_body]
    pub fn peek_next(&mut self) -> (r: Option<&char>)
        ensures
            final(self).rest() == old(self).rest(),
            final(self).cursor() == if old(self).cursor() < usize::MAX { old(self).cursor() + 1 } else { old(self).cursor() },
            final(self).cursor() < old(self).rest().len() ==> r == Some(&old(self).rest()[final(self).cursor() as int]),
            final(self).cursor() >= old(self).rest().len() ==> r is None,
    { unimplemented!() }

    #[verifier::external_body]
    pub fn advance_cursor(&mut self)
        ensures
            final(self).rest() == old(self).rest(),
            final(self).cursor() == if old(self).cursor() < usize::MAX { old(self).cursor() + 1 } else { old(self).cursor() },
    { unimplemented!() }

    #[verifier::external_body]
    pub fn advance_cursor_by(&mut self, n: usize)
        requires old(self).cursor() + n <= usize::MAX,
        ensures final(self).rest() == old(self).rest(), final(self).cursor() == old(self).cursor() + n,
    { unimplemented!() }

    #[verifier::external_body]
    pub fn reset_cursor(&mut self)
        ensures final(self).rest() == old(self).rest(), final(self).cursor() == 0,
    { unimplemented!() }

    #[verifier::external_body]
    pub fn peek_range(&mut self, start: usize, end: usize) -> (r: &[Option<char>])
        requires start <= end,
        ensures
            final(self).rest() == old(self).rest(), final(self).cursor() == old(self).cursor(),
            r@.len() == end - start,
            forall|i: int| 0 <= i < end - start ==> #[trigger] r@[i] == (if start + i < old(self).rest().len() { Some(old(self).rest()[start + i]) } else { None::<char> }),
    { unimplemented!() }

    #[verifier::external_body]
    pub fn peek_amount(&mut self, n: usize) -> (r: &[Option<char>])
        ensures
            final(self).rest() == old(self).rest(), final(self).cursor() == old(self).cursor(),
            r@.len() == n,
            forall|i: int| 0 <= i < n ==> #[trigger] r@[i] == (if i < old(self).rest().len() { Some(old(self).rest()[i]) } else { None::<char> }),
    { unimplemented!() }

    #[verifier::external_body]
    pub fn next_if_eq(&mut self, expected: &char) -> (r: Option<char>)
        ensures
            (old(self).rest().len() > 0 && old(self).rest()[0] == *expected) ==> r == Some(old(self).rest()[0])
                && final(self).rest() == old(self).rest().skip(1)
                && final(self).cursor() == if old(self).cursor() > 0 { (old(self).cursor() - 1) as nat } else { 0 },
            !(old(self).rest().len() > 0 && old(self).rest()[0] == *expected) ==> r is None
                && final(self).rest() == old(self).rest() && final(self).cursor() == old(self).cursor(),
    { unimplemented!() }
}
