// ===== TRUSTED SHIM for U-VALIDATE (validate_substitutes_and_derives_against_registry) =====
// Opaque syn types (never inspected), std collections as mathematical sets / maps, and the iteration protocol of
// HashMap::iter() / Iterator::chain / Iterator::next.  Everything here is ASSUMED, not proved.
//
//  * HashMap::iter() yields every entry of the map (entries_of / sub_entries_of), chain() concatenates, next() walks the
//    sequence front to back  (documented std semantics; the *order* is arbitrary and nothing below depends on it).
//  * `v.iter_mut().find(f)` (rule R10): the first entry on which the closure returns true, as a mutable reference into the
//    vector, or None if there is none; the closure body stays verbatim and is verified against the contract the rule gives it.
//  * HashSet::extend(s.iter().cloned()) is union with s; HashSet::is_empty is "has no element"; clone is identity.
//  * path_segments / path_segments_to_syn_path are opaque conversions named by uninterpreted functions (the second one
//    PANICS on an empty or non-identifier segment list in the real code; panics are not part of this unit's contract).
//  * syn::TypePath is modelled by its `path` field only (`qself` is never read by the code under contract).
pub type PathSegments = Vec<String>;
#[verifier::external_body]
pub struct SynPath { _p: () }
impl Clone for SynPath {
    #[verifier::external_body]
    fn clone(&self) -> (r: SynPath) ensures r == *self { unimplemented!() }
}
// ASSUMED: syn::Path's `==` (derived structural equality under syn's extra-traits) is equality of the opaque values
impl vstd::std_specs::cmp::PartialEqSpecImpl for SynPath {
    open spec fn obeys_eq_spec() -> bool { true }
    open spec fn eq_spec(&self, other: &SynPath) -> bool { *self == *other }
}
impl PartialEq for SynPath {
    #[verifier::external_body]
    fn eq(&self, other: &SynPath) -> (r: bool) { unimplemented!() }
}
#[verifier::external_body]
pub struct SynAttribute { _p: () }
pub struct SynTypePath { pub path: SynPath }

#[verifier::external_body]
#[verifier::reject_recursive_types(T)]
pub struct HSet<T> { _p: core::marker::PhantomData<T> }
#[verifier::external_body]
#[verifier::reject_recursive_types(T)]
pub struct HSetIter<'a, T> { _p: core::marker::PhantomData<&'a T> }
#[verifier::external_body]
#[verifier::reject_recursive_types(T)]
pub struct HSetCloned<'a, T> { _p: core::marker::PhantomData<&'a T> }
impl<'a, T> HSetIter<'a, T> {
    pub uninterp spec fn items(&self) -> Set<T>;
    #[verifier::external_body]
    pub fn cloned(self) -> (r: HSetCloned<'a, T>) ensures r.items() == self.items() { unimplemented!() }
}
impl<'a, T> HSetCloned<'a, T> {
    pub uninterp spec fn items(&self) -> Set<T>;
}
impl<T> HSet<T> {
    pub uninterp spec fn view(&self) -> Set<T>;
    #[verifier::external_body]
    pub fn iter(&self) -> (r: HSetIter<'_, T>) ensures r.items() == self@ { unimplemented!() }
    #[verifier::external_body]
    pub fn extend(&mut self, other: HSetCloned<'_, T>) ensures final(self)@ == old(self)@.union(other.items()) { unimplemented!() }
    #[verifier::external_body]
    pub fn is_empty(&self) -> (r: bool) ensures r == (forall|x: T| !self@.contains(x)) { unimplemented!() }
}
impl<T> Clone for HSet<T> {
    #[verifier::external_body]
    fn clone(&self) -> (r: HSet<T>) ensures r@ == self@ { unimplemented!() }
}

#[verifier::external_body]
#[verifier::reject_recursive_types(V)]
pub struct PMap<V> { _p: core::marker::PhantomData<V> }
#[verifier::external_body]
#[verifier::reject_recursive_types(V)]
pub struct PairIter<'a, V> { _p: core::marker::PhantomData<&'a V> }

pub open spec fn entries_of<V>(s: Seq<(SynTypePath, V)>, m: Map<SynTypePath, V>) -> bool {
    &&& forall|i: int| 0 <= i < s.len() ==> m.contains_key((#[trigger] s[i]).0) && m[s[i].0] == s[i].1
    &&& forall|k: SynTypePath| m.contains_key(k) ==> exists|i: int| 0 <= i < s.len() && (#[trigger] s[i]).0 == k
}

impl<V> PMap<V> {
    #[verifier::external_body]
    pub fn contains_key(&self, k: &SynTypePath) -> (r: bool) ensures r == self@.contains_key(*k) { unimplemented!() }
    #[verifier::external_body]
    pub fn get(&self, k: &SynTypePath) -> (r: Option<&V>)
        ensures self@.contains_key(*k) ==> r == Some(&self@[*k]), !self@.contains_key(*k) ==> r is None,
    { unimplemented!() }
    pub uninterp spec fn view(&self) -> Map<SynTypePath, V>;
    #[verifier::external_body]
    pub fn iter(&self) -> (r: PairIter<'_, V>) ensures r.pos() == 0, entries_of(r.seq(), self@) { unimplemented!() }
}
impl<'a, V> PairIter<'a, V> {
    pub uninterp spec fn seq(&self) -> Seq<(SynTypePath, V)>;
    pub uninterp spec fn pos(&self) -> int;
    #[verifier::external_body]
    pub fn next(&mut self) -> (r: Option<(&'a SynTypePath, &'a V)>)
        ensures
            final(self).seq() == old(self).seq(),
            0 <= old(self).pos() <= old(self).seq().len(),
            old(self).pos() < old(self).seq().len() ==> r is Some && *((r->0).0) == old(self).seq()[old(self).pos()].0
                && *((r->0).1) == old(self).seq()[old(self).pos()].1 && final(self).pos() == old(self).pos() + 1,
            old(self).pos() >= old(self).seq().len() ==> r is None && final(self).pos() == old(self).pos(),
    { unimplemented!() }
    /// `Iterator::filter(f)`: ASSUMED only that the result is a fresh iterator; which elements it keeps is NOT specified here, so
    /// nothing can be proved about a filtered iteration -- such an edit is decided by the concrete oracle alone (exit 1 only with a
    /// failing input, otherwise exit 2)
    #[verifier::external_body]
    pub fn filter<F: Fn(&(&'a SynTypePath, &'a V)) -> bool>(self, f: F) -> (r: PairIter<'a, V>)
        ensures r.pos() == 0
    { unimplemented!() }
    #[verifier::external_body]
    pub fn chain(self, other: PairIter<'a, V>) -> (r: PairIter<'a, V>)
        requires self.pos() == 0, other.pos() == 0
        ensures r.seq() == self.seq() + other.seq(), r.pos() == 0
    { unimplemented!() }
}

pub uninterp spec fn segments_of(p: SynPath) -> Vec<String>;
#[verifier::external_body]
pub fn path_segments(p: &SynPath) -> (r: Vec<String>) ensures r == segments_of(*p) { unimplemented!() }

#[verifier::external_body]
pub fn find_entry_mut<'a, T, F: Fn(&(SynPath, HSet<T>)) -> bool>(v: &'a mut Vec<(SynPath, HSet<T>)>, f: F) -> (r: Option<&'a mut (SynPath, HSet<T>)>)
    requires forall|i: int| 0 <= i < old(v)@.len() ==> call_requires(f, (#[trigger] &old(v)@[i],)),
    ensures
        match r {
            Some(e) => exists|i: int| 0 <= i < old(v)@.len() && call_ensures(f, (&old(v)@[i],), true) && *e == old(v)@[i]
                          && (forall|j: int| 0 <= j < i ==> call_ensures(f, (#[trigger] &old(v)@[j],), false))
                          && final(v)@ == old(v)@.update(i, *final(e)),
            None => (forall|i: int| 0 <= i < old(v)@.len() ==> call_ensures(f, (#[trigger] &old(v)@[i],), false)) && final(v)@ == old(v)@,
        }
{ unimplemented!() }

#[verifier::external_body]
pub struct TypeParamMapping { _p: () }
pub open spec fn key_of(k: Vec<String>) -> Seq<Seq<char>> { Seq::new(k@.len(), |i: int| k@[i]@) }
#[verifier::external_body]
pub struct SMap { _p: () }
#[verifier::external_body]
pub struct SubIter<'a> { _p: core::marker::PhantomData<&'a u8> }
pub open spec fn sub_entries_of(s: Seq<(Vec<String>, Substitute)>, m: Map<Seq<Seq<char>>, Substitute>) -> bool {
    &&& forall|i: int| 0 <= i < s.len() ==> m.contains_key(key_of((#[trigger] s[i]).0)) && m[key_of(s[i].0)] == s[i].1
    &&& forall|k: Seq<Seq<char>>| m.contains_key(k) ==> exists|i: int| 0 <= i < s.len() && key_of((#[trigger] s[i]).0) == k
}
impl SMap {
    pub uninterp spec fn view(&self) -> Map<Seq<Seq<char>>, Substitute>;
    #[verifier::external_body]
    pub fn iter(&self) -> (r: SubIter<'_>) ensures r.pos() == 0, sub_entries_of(r.seq(), self@) { unimplemented!() }
}
impl<'a> SubIter<'a> {
    /// `Iterator::filter(f)`: see PairIter::filter
    #[verifier::external_body]
    pub fn filter<F: Fn(&(&'a Vec<String>, &'a Substitute)) -> bool>(self, f: F) -> (r: SubIter<'a>)
        ensures r.pos() == 0
    { unimplemented!() }
    pub uninterp spec fn seq(&self) -> Seq<(Vec<String>, Substitute)>;
    pub uninterp spec fn pos(&self) -> int;
    #[verifier::external_body]
    pub fn next(&mut self) -> (r: Option<(&'a Vec<String>, &'a Substitute)>)
        ensures
            final(self).seq() == old(self).seq(),
            0 <= old(self).pos() <= old(self).seq().len(),
            old(self).pos() < old(self).seq().len() ==> r is Some && *((r->0).0) == old(self).seq()[old(self).pos()].0
                && *((r->0).1) == old(self).seq()[old(self).pos()].1 && final(self).pos() == old(self).pos() + 1,
            old(self).pos() >= old(self).seq().len() ==> r is None && final(self).pos() == old(self).pos(),
    { unimplemented!() }
}
pub uninterp spec fn syn_path_of(key: Seq<Seq<char>>) -> SynPath;
#[verifier::external_body]
pub fn path_segments_to_syn_path(segments: &Vec<String>) -> (r: SynPath) ensures r == syn_path_of(key_of(*segments)) { unimplemented!() }

