// ===== SHIM (after the extracted items of U-PATHS) =====
/// What the HEAD of resolve_type_path_recurse (rule R8': the parent-parameter shortcut, resolve_type, the Cow special case,
/// the resolution of the type's own parameters -- closures and iterator chains) hands to the `match` on the type definition:
/// either the function has already returned, or it goes on with a registry type and its resolved parameters.
pub enum Head<'a> {
    Return(Result<TypePath, TypegenError>),
    Go(&'a Type, Vec<TypePath>),
}
pub uninterp spec fn head_of<'a>(g: TypeGenerator<'a>, id: u32, is_field: bool, parent_type_params: Seq<TgTypeParameter>, original_name: Option<&str>) -> Head<'a>;

impl<'a> TypeGenerator<'a> {
    #[verifier::external_body]
    pub fn opaque_head(&self, id: u32, is_field: bool, parent_type_params: &[TgTypeParameter], original_name: Option<&str>) -> (r: Head<'a>)
        ensures r == head_of(*self, id, is_field, parent_type_params@, original_name)
    { unimplemented!() }

    /// OPAQUE: substitutes / from_type_def_path (syn); no postcondition
    #[verifier::external_body]
    pub fn type_path_maybe_with_substitutes(&self, path: &Path, params: &[TypePath]) -> TypePathType { unimplemented!() }

    /// OPAQUE (R8''): `tuple.fields.iter().map(|f| self.resolve_type_path_recurse(..)).collect::<Result<Vec<_>, _>>()`; no postcondition
    #[verifier::external_body]
    pub fn opaque_tuple_elements(&self, tuple: &TypeDefTuple, parent_type_params: &[TgTypeParameter]) -> Result<Vec<TypePath>, TypegenError> { unimplemented!() }
}
