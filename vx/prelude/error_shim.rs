// ===== TRUSTED SHIM: opaque payload types of TypegenError variants that the contracts never inspect =====
#[verifier::external_body]
pub struct SynError { _p: () }
#[verifier::external_body]
pub struct TypeSubstitutionError { _p: () }
#[verifier::external_body]
pub struct SettingsValidationError { _p: () }
