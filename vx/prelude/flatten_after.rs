// ===== SHIM (after the extracted items of U-FLATTEN) =====
/// what #[derive(Clone)] generates for Derives: field-wise clone (verified against the HSet clone contract)
impl Clone for Derives {
    fn clone(&self) -> (r: Derives)
        ensures r.derives@ == self.derives@, r.attributes@ == self.attributes@
    {
        Derives { derives: self.derives.clone(), attributes: self.attributes.clone() }
    }
}
/// ASSUMED: `#[derive(Default)]` on `Derives` gives two empty sets (what `entry(k).or_default()` inserts for a new key).
#[verifier::external_body]
pub proof fn axiom_derives_default()
    ensures default_empty()
{}
