// ===== TRUSTED SHIM: std::str::Chars =====
// ASSUMED std contract: `s.chars()` is a fused iterator that yields the characters of `s` in order
// (abstract state `rest()` = the characters not yet yielded).  A `&str` holds at most isize::MAX bytes,
// hence at most that many chars (Rust's allocation guarantee).
#[verifier::external_body]
pub struct CharsShim { _p: () }

impl CharsShim {
    pub uninterp spec fn rest(&self) -> Seq<char>;

    #[verifier::external_body]
    pub fn new(s: &str) -> (r: CharsShim)
        ensures r.rest() == s@, s@.len() <= isize::MAX as int,
    { unimplemented!() }

    #[verifier::external_body]
    pub fn next(&mut self) -> (r: Option<char>)
        ensures
            old(self).rest().len() == 0 ==> r is None && final(self).rest() == old(self).rest(),
            old(self).rest().len() > 0 ==> r == Some(old(self).rest()[0]) && final(self).rest() == old(self).rest().skip(1),
    { unimplemented!() }
}
