"""Syntactic cross-check of the scale-info shim datatypes against the scale-info source that /repo's
Cargo.lock pins (DESIGN.md 4.1 R3 / 4.2): every shim struct must list exactly the `pub` fields of the
upstream struct, in order, and every shim enum the upstream variants in order.  A mismatch makes the
units that use the shim undecided (exit 2): the trusted base has drifted."""
import glob
import os
import re

from . import rustlex as rl

STRUCTS = ['Path', 'TypeParameter', 'Field', 'Variant', 'TypeDefComposite', 'TypeDefVariant', 'TypeDefSequence',
           'TypeDefArray', 'TypeDefTuple', 'TypeDefCompact', 'TypeDefBitSequence', 'Type', 'PortableType', 'PortableRegistry',
           'UntrackedSymbol']
ENUMS = ['TypeDef', 'TypeDefPrimitive']


def _items(src):
    mask = rl.code_mask(src)
    out = {}
    for mm in rl.find_code(src, mask, r'(?m)^[ \t]*pub[ \t]+(struct|enum)[ \t]+([A-Za-z_][A-Za-z0-9_]*)'):
        kind, name = mm.group(1), mm.group(2)
        j = rl.next_code_char(src, mask, '{;', mm.end())
        if j < 0 or src[j] == ';':
            continue
        k = rl.match_close(src, mask, j)
        body = ''.join(c if m else ' ' for c, m in zip(src[j + 1:k], mask[j + 1:k]))
        body = re.sub(r'#\[[^\]]*\]', ' ', body)
        if kind == 'struct':
            fields = re.findall(r'\bpub\s+([a-z_][a-z0-9_]*)\s*:', body)
            out[name] = ('struct', fields)
        else:
            # variants at depth 0 of the enum body
            depth = 0
            flat = ''
            for c in body:
                if c in '({[':
                    depth += 1
                elif c in ')}]':
                    depth -= 1
                elif depth == 0:
                    flat += c
            out[name] = ('enum', re.findall(r'\b([A-Z][A-Za-z0-9_]*)\b', flat))
    return out


def check(repo, verif, shim_file='scaleinfo.rs', names=None):
    lock = open(os.path.join(repo, 'Cargo.lock')).read()
    m = re.search(r'name = "scale-info"\nversion = "([^"]+)"', lock)
    if not m:
        return False, ['scale-info not found in Cargo.lock']
    ver = m.group(1)
    dirs = glob.glob(os.path.expanduser('~/.cargo/registry/src/*/scale-info-%s' % ver))
    if not dirs:
        return False, ['scale-info %s sources not found in the cargo registry' % ver]
    up = {}
    for f in glob.glob(os.path.join(dirs[0], 'src', '**', '*.rs'), recursive=True):
        if '/tests' in f:
            continue
        for k, v in _items(open(f).read()).items():
            up.setdefault(k, v)
    shim = _items(open(os.path.join(verif, 'vx', 'prelude', shim_file)).read())
    problems = []
    for n in (names or STRUCTS + ENUMS):
        if n not in shim:
            problems.append('shim lacks %s' % n)
            continue
        if n not in up:
            problems.append('upstream scale-info %s lacks %s' % (ver, n))
            continue
        if shim[n] != up[n]:
            problems.append('%s differs: shim %s, scale-info %s %s' % (n, shim[n], ver, up[n]))
    return (not problems), ['scale-info %s' % ver] + problems
