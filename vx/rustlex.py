"""Minimal Rust lexical utilities for the mechanical extractor.

Only what the extractor needs: a token-ish scan that knows comments, string / raw-string /
char literals and lifetimes, so that brace matching and keyword search are not fooled by
`'{'`, `"{"` or `// {`.  Nothing here interprets Rust; it only finds spans.
"""
import re


class LexError(Exception):
    pass


def code_mask(src):
    """Return a list `m` with m[i] == True iff src[i] is *code* (not inside a comment,
    string literal or char literal).  Delimiters of literals are marked non-code too."""
    n = len(src)
    m = [True] * n
    i = 0
    while i < n:
        c = src[i]
        if c == '/' and i + 1 < n and src[i + 1] == '/':
            j = src.find('\n', i)
            if j < 0:
                j = n
            for k in range(i, j):
                m[k] = False
            i = j
            continue
        if c == '/' and i + 1 < n and src[i + 1] == '*':
            depth = 1
            j = i + 2
            while j < n and depth > 0:
                if src.startswith('/*', j):
                    depth += 1
                    j += 2
                elif src.startswith('*/', j):
                    depth -= 1
                    j += 2
                else:
                    j += 1
            for k in range(i, j):
                m[k] = False
            i = j
            continue
        if c == '"' or (c in 'rb' and re.match(r'(b?r#*"|b")', src[i:i + 8]) and
                        (i == 0 or not (src[i - 1].isalnum() or src[i - 1] == '_'))):
            mm = re.match(r'b?r(#*)"', src[i:])
            if mm:
                hashes = mm.group(1)
                end = src.find('"' + hashes, i + len(mm.group(0)))
                if end < 0:
                    raise LexError('unterminated raw string')
                j = end + 1 + len(hashes)
            else:
                j = i + (2 if c == 'b' else 1)
                while j < n and src[j] != '"':
                    j += 2 if src[j] == '\\' else 1
                j += 1
            for k in range(i, min(j, n)):
                m[k] = False
            i = j
            continue
        if c == "'":
            # char literal or lifetime
            if i + 1 < n and src[i + 1] == '\\':
                j = src.find("'", i + 2)
                # '\'' : the quote found is the escaped one
                if src[i + 2] == "'":
                    j = src.find("'", i + 3)
                j += 1
                for k in range(i, j):
                    m[k] = False
                i = j
                continue
            if i + 2 < n and src[i + 2] == "'":
                for k in range(i, i + 3):
                    m[k] = False
                i += 3
                continue
            # lifetime / label: leave as code
            i += 1
            continue
        i += 1
    return m


OPEN = {'{': '}', '(': ')', '[': ']'}
CLOSE = {v: k for k, v in OPEN.items()}


def match_close(src, mask, i):
    """src[i] is an opening bracket in code; return index of its matching closer."""
    assert src[i] in OPEN and mask[i], (src[i:i + 20], i)
    stack = []
    n = len(src)
    j = i
    while j < n:
        if mask[j]:
            c = src[j]
            if c in OPEN:
                stack.append(c)
            elif c in CLOSE:
                if not stack or stack[-1] != CLOSE[c]:
                    raise LexError('mismatched bracket at %d' % j)
                stack.pop()
                if not stack:
                    return j
        j += 1
    raise LexError('unterminated bracket')


def find_code(src, mask, pattern, start=0, end=None):
    """Iterate regex matches of `pattern` whose first char lies in code."""
    end = len(src) if end is None else end
    for mm in re.finditer(pattern, src[:end]):
        if mm.start() >= start and mask[mm.start()]:
            yield mm


def next_code_char(src, mask, chars, start, end=None):
    """Index of the first code char in `chars` at bracket depth 0 (relative to start)."""
    end = len(src) if end is None else end
    depth = 0
    j = start
    while j < end:
        if mask[j]:
            c = src[j]
            if depth == 0 and c in chars:
                return j
            if c in '([':
                depth += 1
            elif c in ')]':
                depth -= 1
        j += 1
    return -1


ITEM_RE = r'(?m)^[ \t]*(?:pub(?:\([a-z]+\))?[ \t]+)?(?:const[ \t]+)?(?P<kw>fn|enum|struct|const|impl)[ \t]+(?P<name>[A-Za-z_][A-Za-z0-9_]*)'


def item_span(src, mask, kind, name, lo=0, hi=None):
    """Span (start, end) of the item `kind name` found inside src[lo:hi], including the
    attributes and doc comments directly above it.  `kind` is fn|enum|struct|const."""
    hi = len(src) if hi is None else hi
    pat = r'(?m)^[ \t]*(?:pub(?:\([a-z]+\))?[ \t]+)?%s[ \t]+%s\b' % (kind, re.escape(name))
    found = [mm for mm in find_code(src, mask, pat, lo, hi)]
    if len(found) != 1:
        raise LexError('expected exactly one `%s %s` in span, found %d' % (kind, name, len(found)))
    s = found[0].start()
    # include preceding attribute / doc-comment lines
    while True:
        prev_end = s - 1
        if prev_end <= lo:
            break
        prev_start = src.rfind('\n', lo, prev_end) + 1
        line = src[prev_start:prev_end].strip()
        if line.startswith('///') or line.startswith('#[') or line.startswith('//!'):
            s = prev_start
        else:
            break
    if kind == 'const':
        e = next_code_char(src, mask, ';', found[0].end(), hi)
        return s, e + 1
    # fn / enum / struct: up to matching brace, or `;` for unit/tuple structs
    j = next_code_char(src, mask, '{;', found[0].end(), hi)
    if j < 0:
        raise LexError('no body for %s %s' % (kind, name))
    if src[j] == ';':
        return s, j + 1
    return s, match_close(src, mask, j) + 1


def impl_span(src, mask, type_name, lo=0, hi=None):
    """All spans of inherent `impl ... TypeName ... {` blocks (not trait impls)."""
    hi = len(src) if hi is None else hi
    out = []
    pat = r"(?m)^[ \t]*impl(?:<[^>{]*>)?[ \t]+%s\b(?:<[^{]*>)?[ \t\n]*(?:where[^{]*)?\{" % re.escape(type_name)
    for mm in find_code(src, mask, pat, lo, hi):
        ob = mm.end() - 1
        out.append((mm.start(), match_close(src, mask, ob) + 1))
    return out


def loops_in(src, mask, lo, hi):
    """Textual order list of loops in src[lo:hi]: (kw_start, kw, header_end(body '{' idx), body_close)."""
    out = []
    for mm in find_code(src, mask, r'\b(for|while|loop)\b', lo, hi):
        # `for` in `for<'a>` / `impl X for Y` is not expected inside fn bodies we extract
        kw = mm.group(1)
        ob = next_code_char(src, mask, '{', mm.end(), hi)
        if ob < 0:
            continue
        out.append((mm.start(), kw, ob, match_close(src, mask, ob)))
    return out


def impl_for_span(src, mask, trait, type_name, lo=0, hi=None):
    """Spans of `impl<..> Trait for TypeName<..> {` blocks."""
    hi = len(src) if hi is None else hi
    out = []
    pat = r"(?m)^[ \t]*impl(?:<[^>{]*>)?[ \t]+%s[ \t]+for[ \t]+%s\b(?:<[^{]*>)?[ \t\n]*(?:where[^{]*)?\{" % (re.escape(trait), re.escape(type_name))
    for mm in find_code(src, mask, pat, lo, hi):
        ob = mm.end() - 1
        out.append((mm.start(), match_close(src, mask, ob) + 1))
    return out
