"""Mechanical extractor + contract splicer (DESIGN.md section 4.1).

Reads the named items from /repo's *working tree* on every run, applies the closed list of
rewrite rules given in the unit file (each logged, each with a minimum match count), splices the
contract clauses from the unit's contracts file, and emits one single-file Verus program

    prelude (shims, trusted)  +  lemmas (mine, verified)  +  extracted items with contracts

together with a line map (output line -> origin) and a unified diff between the repository text
and the verified text.  Anything it cannot do is a LostAnchor: the check exits 2, never 1.
"""
import difflib
import json
import os
import re

from . import rustlex as rl


class LostAnchor(Exception):
    pass


class Seg:
    __slots__ = ('text', 'kind', 'off', 'note')

    def __init__(self, text, kind, off=None, note=''):
        self.text, self.kind, self.off, self.note = text, kind, off, note


class Segs:
    """A text made of segments that remember where they came from."""

    def __init__(self, text, off):
        self.s = [Seg(text, 'repo', off)]

    def text(self):
        return ''.join(x.text for x in self.s)

    def _split(self, pos):
        """Ensure a segment boundary at absolute position pos; return index of seg starting at pos."""
        acc = 0
        for i, sg in enumerate(self.s):
            if acc == pos:
                return i
            if acc < pos < acc + len(sg.text):
                k = pos - acc
                a = Seg(sg.text[:k], sg.kind, sg.off, sg.note)
                b = Seg(sg.text[k:], sg.kind, (sg.off + k) if (sg.off is not None and sg.kind == 'repo') else sg.off, sg.note)
                self.s[i:i + 1] = [a, b]
                return i + 1
            acc += len(sg.text)
        if acc == pos:
            return len(self.s)
        raise IndexError(pos)

    def insert(self, pos, text, note):
        i = self._split(pos)
        self.s.insert(i, Seg(text, 'spec', None, note))

    def replace(self, a, b, text, kind, note):
        i = self._split(a)
        j = self._split(b)
        off = self.s[i].off if i < len(self.s) else None
        self.s[i:j] = [Seg(text, kind, off, note)]


def parse_contracts(path):
    """contracts file -> {fn_key: [(directive, args, text, lineno)]}"""
    out = {}
    cur_fn = None
    cur = None
    with open(path) as f:
        for ln, line in enumerate(f, 1):
            if line.startswith('@@'):
                continue  # comment
            if line.startswith('@'):
                parts = line[1:].rstrip('\n').split(None, 1)
                d = parts[0]
                arg = parts[1].strip() if len(parts) > 1 else ''
                if d == 'fn':
                    cur_fn = arg
                    out.setdefault(cur_fn, [])
                    cur = None
                else:
                    if cur_fn is None:
                        raise ValueError('%s:%d directive before @fn' % (path, ln))
                    cur = [d, arg, '', ln]
                    out[cur_fn].append(cur)
            elif cur is not None:
                cur[2] += line
    return out


def _fn_header(text, mask, name):
    """Return (kw_end, body_open_idx, body_close_idx) of `fn name` in text."""
    mm = [m for m in rl.find_code(text, mask, r'\bfn[ \t]+%s\b' % re.escape(name))]
    if len(mm) != 1:
        raise LostAnchor('fn %s: expected one definition in extracted text, found %d' % (name, len(mm)))
    ob = rl.next_code_char(text, mask, '{', mm[0].end())
    if ob < 0:
        raise LostAnchor('fn %s has no body' % name)
    return mm[0].end(), ob, rl.match_close(text, mask, ob)


def splice(segs, fn_name, directives, cfile):
    """Apply contract directives for one function to its segment text."""
    text = segs.text()
    mask = rl.code_mask(text)
    kw_end, ob, cb = _fn_header(text, mask, fn_name)
    loops = rl.loops_in(text, mask, ob + 1, cb)
    edits = []  # (pos, order, kind, payload)
    order = 0

    def loop_k(arg, d):
        try:
            k = int(arg.split()[0])
        except Exception:
            raise ValueError('%s: @%s needs a loop ordinal' % (cfile, d))
        if not (1 <= k <= len(loops)):
            raise LostAnchor('%s: @%s %d but function %s has %d loops' % (cfile, d, k, fn_name, len(loops)))
        return loops[k - 1]

    # string literals of the function, for proof blocks that want them revealed (placeholder /*REVEAL_STRLITS*/)
    lits = []
    for mm in re.finditer(r'"((?:[^"\\\n]|\\.)*)"', text[ob:cb]):
        # only real string literals: the opening quote must be non-code per the mask, i.e. a literal delimiter
        if not mask[ob + mm.start()] and mm.group(0) not in lits and len(mm.group(1)) <= 12:
            lits.append(mm.group(0))
    reveal = ' '.join('reveal_strlit(%s);' % l for l in lits)
    directives = [(d, arg, body.replace('/*REVEAL_STRLITS*/', reveal), ln) for (d, arg, body, ln) in directives]
    for d, arg, body, ln in directives:
        note = '%s:%d @%s %s' % (os.path.basename(cfile), ln, d, arg)
        order += 1
        if d == 'ret':
            # `-> T {`  =>  `-> (name: T) {`
            arrow = None
            for mm in rl.find_code(text, mask, r'->', kw_end, ob):
                arrow = mm
            if arrow is None:
                raise LostAnchor('fn %s: @ret but no return type' % fn_name)
            a = arrow.end()
            ty = text[a:ob]
            # a where-clause would sit between the type and the body; not expected here
            if re.search(r'\bwhere\b', ty):
                raise LostAnchor('fn %s: where-clause after return type not supported by @ret' % fn_name)
            edits.append((a, order, 'replace', (ob, ' (%s: %s)\n' % (arg, ty.strip()), note)))
        elif d == 'sig':
            edits.append((ob, order, 'insert', ('\n' + body, note)))
        elif d == 'body_start':
            edits.append((ob + 1, order, 'insert', ('\n' + body, note)))
        elif d == 'body_end':
            edits.append((cb, order, 'insert', (body, note)))
        elif d == 'loop':
            lp = loop_k(arg, d)
            edits.append((lp[2], order, 'insert', ('\n' + body, note)))
        elif d == 'before_loop':
            lp = loop_k(arg, d)
            ls = text.rfind('\n', 0, lp[0]) + 1
            edits.append((ls, order, 'insert', (body, note)))
        elif d == 'after_loop':
            lp = loop_k(arg, d)
            edits.append((lp[3] + 1, order, 'insert', ('\n' + body, note)))
        elif d == 'loop_body_start':
            lp = loop_k(arg, d)
            edits.append((lp[2] + 1, order, 'insert', ('\n' + body, note)))
        elif d == 'loop_body_end':
            lp = loop_k(arg, d)
            edits.append((lp[3], order, 'insert', (body, note)))
        elif d == 'label':
            lp = loop_k(arg, d)
            lab = arg.split()[1]
            if lp[1] != 'for':
                raise LostAnchor('%s: @label on a non-for loop in %s' % (cfile, fn_name))
            mm = re.compile(r'\bin\b').search(text, lp[0], lp[2])
            if not mm:
                raise LostAnchor('for loop without `in` in %s' % fn_name)
            edits.append((mm.end(), order, 'insert', (' %s:' % lab, note)))
        elif d == 'arm_end':
            # structural anchor: the block opened at the end of the K-th line matching the regex (a match arm head)
            mm = re.match(r'(\d+)\s+/(.*)/\s*$', arg)
            if not mm:
                raise ValueError('%s:%d bad @%s argument' % (cfile, ln, d))
            kk, rx = int(mm.group(1)), re.compile(mm.group(2))
            hits = []
            pos = ob + 1
            for line in text[ob + 1:cb].split('\n'):
                st = line.rstrip()
                if st.strip() and rx.search(line) and st.endswith('{') and mask[pos + len(st) - 1]:
                    hits.append(pos + len(st) - 1)
                pos += len(line) + 1
            if len(hits) < kk:
                raise LostAnchor('fn %s: arm head /%s/ occurrence %d not found (%d hits)' % (fn_name, rx.pattern, kk, len(hits)))
            close = rl.match_close(text, mask, hits[kk - 1])
            ls = text.rfind('\n', 0, close) + 1
            edits.append((ls, order, 'insert', (body, note)))
        elif d in ('before_line', 'after_line'):
            mm = re.match(r'(\d+)\s+/(.*)/\s*$', arg)
            if not mm:
                raise ValueError('%s:%d bad @%s argument' % (cfile, ln, d))
            k, rx = int(mm.group(1)), re.compile(mm.group(2))
            hits = []
            pos = ob + 1
            for line in text[ob + 1:cb].split('\n'):
                if line.strip() and rx.search(line):
                    first = pos + (len(line) - len(line.lstrip()))
                    if mask[first]:
                        hits.append((pos, pos + len(line)))
                pos += len(line) + 1
            if len(hits) < k:
                raise LostAnchor('fn %s: anchor /%s/ occurrence %d not found (%d hits)' % (fn_name, rx.pattern, k, len(hits)))
            a, b = hits[k - 1]
            if d == 'before_line':
                edits.append((a, order, 'insert', (body, note)))
            else:
                edits.append((b, order, 'insert', ('\n' + body.rstrip('\n'), note)))
        else:
            raise ValueError('%s:%d unknown directive @%s' % (cfile, ln, d))
    # apply from the end; for equal positions, later directives go after earlier ones
    edits.sort(key=lambda e: (e[0], e[1]), reverse=True)
    for pos, _, kind, payload in edits:
        if kind == 'insert':
            segs.insert(pos, payload[0], payload[1])
        else:
            end, newtext, note = payload
            segs.replace(pos, end, newtext, 'spec', note)
    return len(loops)


def extract_unit(repo, unit_dir, out_path, variant=None):
    """Build the Verus file for one unit.  Returns a dict with the line map, log and diff.

    variant: optional dict {'fn': name, 'directive': (d, arg, text)} appended to the contract
    directives (used for canaries)."""
    spec = json.load(open(os.path.join(unit_dir, 'unit.json')))
    vx_dir = os.path.dirname(os.path.abspath(__file__))
    cfiles = spec['contracts'] if isinstance(spec['contracts'], list) else [spec['contracts']]
    cfiles = [os.path.normpath(os.path.join(unit_dir, c)) for c in cfiles]
    cfile = cfiles[-1]
    contracts = {}
    cfile_of = {}
    for cf in cfiles:
        for fnk, dirs in parse_contracts(cf).items():
            contracts[fnk] = dirs
            cfile_of[fnk] = cf
    log = []
    used_fns = set()
    src_cache = {}

    def load(rel):
        if rel not in src_cache:
            if rel.startswith('registry:'):
                # dependency source, at the version /repo's Cargo.lock pins:  registry:<crate>/<path inside the crate>
                import glob
                crate, _, inner = rel[len('registry:'):].partition('/')
                lock = open(os.path.join(repo, 'Cargo.lock')).read()
                mm = re.search(r'name = "%s"\nversion = "([^"]+)"' % re.escape(crate), lock)
                if not mm:
                    raise LostAnchor('%s is not in Cargo.lock' % crate)
                cands = glob.glob(os.path.expanduser('~/.cargo/registry/src/*/%s-%s/%s' % (crate, mm.group(1), inner)))
                if not cands:
                    raise LostAnchor('source of %s %s not found in the cargo registry' % (crate, mm.group(1)))
                p = cands[0]
                log.append({'rule': 'dependency source', 'crate': crate, 'version': mm.group(1), 'file': inner})
            else:
                p = os.path.join(repo, rel)
            if not os.path.exists(p):
                raise LostAnchor('source file %s is missing' % rel)
            s = open(p).read()
            src_cache[rel] = (s, rl.code_mask(s))
        return src_cache[rel]

    def locate(rel, it):
        src, mask = load(rel)
        lo, hi = 0, len(src)
        w = it.get('within')
        try:
            if w:
                if w['kind'] in ('impl', 'impl_for'):
                    spans = rl.impl_span(src, mask, w['name']) if w['kind'] == 'impl' else rl.impl_for_span(src, mask, w['trait'], w['name'])
                    cands = []
                    for (a, b) in spans:
                        try:
                            cands.append(rl.item_span(src, mask, it['kind'], it['name'], a, b))
                        except rl.LexError:
                            pass
                    if len(cands) != 1:
                        raise LostAnchor('%s: `%s %s` in impl %s: found %d' % (rel, it['kind'], it['name'], w['name'], len(cands)))
                    return cands[0]
                lo, hi = rl.item_span(src, mask, w['kind'], w['name'])
                try:
                    return rl.item_span(src, mask, it['kind'], it['name'], lo, hi)
                except rl.LexError:
                    if it.get('_hoisting'):
                        raise
                    # the item may have been moved to module level (a harmless refactoring): look there
                    sp = rl.item_span(src, mask, it['kind'], it['name'])
                    log.append({'rule': 'R1 (not needed): item found at module level', 'item': it['name']})
                    return sp
            return rl.item_span(src, mask, it['kind'], it['name'], lo, hi)
        except rl.LexError as e:
            raise LostAnchor('%s: %s' % (rel, e))

    # R1 (automatic part): items nested directly in an extracted function that the unit file does not name (a new
    # `const`, helper `fn`, ...) are hoisted too, without contracts, so that such an edit is decided, not undecided.
    items = list(spec['items'])
    named = {(i['kind'], i['name']) for i in items}
    extra = []
    for it in items:
        if it['kind'] != 'fn' or not it.get('hoist_auto'):
            continue
        rel = it.get('source', spec.get('source'))
        src, mask = load(rel)
        a, b = locate(rel, it)
        text = src[a:b]
        m2 = mask[a:b]
        try:
            _, ob2, cb2 = _fn_header(text, m2, it['name'])
        except LostAnchor:
            continue
        depth = 0
        pos = ob2 + 1
        for line in text[ob2 + 1:cb2].split('\n'):
            mm = re.match(r'\s*(?:pub(?:\([a-z]+\))?\s+)?(const|fn|enum|struct)\s+([A-Za-z_][A-Za-z0-9_]*)', line)
            if mm and depth == 0 and m2[pos + (len(line) - len(line.lstrip()))]:
                key = (mm.group(1), mm.group(2))
                if key not in named and not (key[0] == 'const' and re.match(r'\s*const\s+fn\b', line)):
                    named.add(key)
                    extra.append({'kind': key[0], 'name': key[1], 'source': rel, 'within': {'kind': 'fn', 'name': it['name']}, '_auto': True})
                    it.setdefault('hoist', []).append({'kind': key[0], 'name': key[1]})
                    log.append({'rule': 'R1 (auto) hoisted an item the unit file does not name', 'item': it['name'], 'hoisted': '%s %s' % key})
            for i2, ch in enumerate(line):
                if m2[pos + i2]:
                    if ch == '{':
                        depth += 1
                    elif ch == '}':
                        depth -= 1
            pos += len(line) + 1
    # auto-hoisted items go first (they are definitions the later items use)
    spec = dict(spec, items=extra + items)

    pieces = []  # (header_comment, Segs, rel, fn_name or None)
    for it in spec['items']:
        rel = it.get('source', spec.get('source'))
        src, mask = load(rel)
        a, b = locate(rel, it)
        segs = Segs(src[a:b], a)
        # R1: hoist nested items out of this item (spans computed on the source, applied last-first)
        hspans = []
        for h in it.get('hoist', []):
            try:
                ha, hb = locate(rel, dict(h, within={'kind': it['kind'], 'name': it['name']}, _hoisting=True))
            except LostAnchor:
                continue   # not nested any more (moved to module level): nothing to hoist
            while hb < len(src) and src[hb] in ' \t':
                hb += 1
            if hb < len(src) and src[hb] == '\n':
                hb += 1
            ha = src.rfind('\n', 0, ha) + 1
            hspans.append((ha, hb, h))
        hspans.sort(key=lambda x: x[0], reverse=True)
        for ha, hb, h in hspans:
            segs.replace(ha - a, hb - a, '', 'rewrite', 'R1 hoisted %s %s' % (h['kind'], h['name']))
            log.append({'rule': 'R1', 'item': it['name'], 'hoisted': '%s %s' % (h['kind'], h['name'])})
        # R15: alpha-renaming of ONE local variable to the name the spliced contracts use.  The binding is found by a regex with
        # one group; refused (lost anchor) if the canonical name is already in use or the old name occurs in a field position.
        for ar in it.get('alpha_rename', []):
            text = segs.text()
            m2 = rl.code_mask(text)
            hits = [mm for mm in re.finditer(ar['regex'], text) if m2[mm.start()]]
            if len(hits) != 1:
                continue   # the binding is not there in this form: the later anchors decide
            x = hits[0].group(1)
            to = ar['to']
            if x == to:
                continue
            occ = [mm for mm in re.finditer(r'\b%s\b' % re.escape(x), text) if m2[mm.start()]]
            if any(m2[mm.start()] for mm in re.finditer(r'\b%s\b' % re.escape(to), text)):
                raise LostAnchor('R15: cannot rename local %s to %s in %s: the name is in use' % (x, to, it['name']))
            for mm in occ:
                before = text[:mm.start()].rstrip()[-1:]
                after = text[mm.end():].lstrip()
                if before == '.' or (after.startswith(':') and not after.startswith('::')) or before == '{' or after.startswith('}') and before == ',':
                    raise LostAnchor('R15: local %s occurs in a field position in %s' % (x, it['name']))
            for mm in reversed(occ):
                segs.replace(mm.start(), mm.end(), to, 'rewrite', 'R15 alpha-renaming of a local (%s -> %s)' % (x, to))
            log.append({'rule': 'R15 alpha-renaming of one local variable to the name the contracts use', 'item': it['name'], 'from': x, 'to': to, 'occurrences': len(occ)})
        # R8: tail abstraction -- keep the function up to and including an anchor line, replace the rest of the body
        ta = it.get('tail_after')
        if ta:
            text = segs.text()
            m2 = rl.code_mask(text)
            _, ob2, cb2 = _fn_header(text, m2, it['name'])
            rx = re.compile(ta['regex'])
            pos = ob2 + 1
            hits = []
            for line in text[ob2 + 1:cb2].split('\n'):
                if line.strip() and rx.search(line):
                    hits.append(pos + len(line))
                pos += len(line) + 1
            kk = ta.get('occurrence', 1)
            missing = len(hits) < kk
            if missing and ta.get('if_missing') != 'empty_prefix':
                raise LostAnchor('fn %s: R8 anchor /%s/ occurrence %d not found' % (it['name'], ta['regex'], kk))
            if missing:
                # the anchor statement is gone: keep NOTHING of the body (the whole function is the opaque tail); the
                # contract then cannot be proved, which the unit reports only together with a concrete input
                cut = ob2 + 1
                log.append({'rule': 'R8: anchor statement not found, the whole body is abstracted', 'item': it['name'], 'anchor': ta['regex']})
            else:
                cut = hits[kk - 1]
            if ta.get('whole_statement') and not missing:
                # extend the kept prefix to the end of the statement that starts on the anchor line
                ls = text.rfind('\n', 0, cut - 1) + 1
                depth = 0
                j = ls
                end = None
                while j < cb2:
                    if m2[j]:
                        ch = text[j]
                        if ch in '([{':
                            depth += 1
                        elif ch in ')]}':
                            depth -= 1
                            if depth == 0 and ch == '}':
                                rest = text[j + 1:cb2].lstrip()
                                if not (rest.startswith('else') or rest.startswith('.') or rest.startswith('?') or rest.startswith(';')):
                                    end = j + 1
                                    break
                        elif ch == ';' and depth == 0:
                            end = j + 1
                            break
                    j += 1
                if end is None:
                    raise LostAnchor('fn %s: R8 anchor statement has no end' % it['name'])
                cut = end
            dropped = text[cut:cb2]
            segs.replace(cut, cb2, '\n' + ta['replacement'] + '\n', 'rewrite', 'R8 tail abstraction')
            log.append({'rule': 'R8 tail abstraction: body after the anchor line replaced by an opaque call (arbitrary result)', 'item': it['name'],
                        'anchor': ta['regex'], 'dropped_lines': dropped.count('\n')})
        # R8 (variant): tail abstraction that starts AT an anchor line (the line itself is dropped too)
        tf = it.get('tail_from')
        if tf:
            text = segs.text()
            m2 = rl.code_mask(text)
            _, ob2, cb2 = _fn_header(text, m2, it['name'])
            rx = re.compile(tf['regex'])
            pos = ob2 + 1
            hits = []
            for line in text[ob2 + 1:cb2].split('\n'):
                if line.strip() and rx.search(line):
                    hits.append(pos)
                pos += len(line) + 1
            kk = tf.get('occurrence', 1)
            if len(hits) < kk:
                raise LostAnchor('fn %s: R8 tail_from anchor /%s/ occurrence %d not found' % (it['name'], tf['regex'], kk))
            cut = hits[kk - 1]
            dropped = text[cut:cb2]
            segs.replace(cut, cb2, tf['replacement'] + '\n', 'rewrite', 'R8 tail abstraction')
            log.append({'rule': 'R8 tail abstraction: body from the anchor line on replaced by an opaque call (arbitrary result)', 'item': it['name'],
                        'anchor': tf['regex'], 'dropped_lines': dropped.count('\n')})
        # R8': head abstraction -- replace the body from its start up to and including an anchor line
        ha_ = it.get('head_until')
        if ha_:
            text = segs.text()
            m2 = rl.code_mask(text)
            _, ob2, cb2 = _fn_header(text, m2, it['name'])
            rx = re.compile(ha_['regex'])
            pos = ob2 + 1
            hits = []
            for line in text[ob2 + 1:cb2].split('\n'):
                if line.strip() and rx.search(line):
                    hits.append(pos + len(line))
                pos += len(line) + 1
            kk = ha_.get('occurrence', 1)
            if len(hits) < kk:
                raise LostAnchor('fn %s: R8 head anchor /%s/ occurrence %d not found' % (it['name'], ha_['regex'], kk))
            cut = hits[kk - 1]
            dropped = text[ob2 + 1:cut]
            segs.replace(ob2 + 1, cut, '\n' + ha_['replacement'], 'rewrite', 'R8 head abstraction')
            log.append({'rule': "R8' head abstraction: body up to and including the anchor line replaced by an opaque call (result named by an uninterpreted spec function)", 'item': it['name'],
                        'anchor': ha_['regex'], 'dropped_lines': dropped.count('\n')})
        # R8'': statement abstraction -- replace ONE statement (from an anchor line to its terminating `;`) by an opaque call
        for ab in it.get('abstract_stmt', []):
            text = segs.text()
            m2 = rl.code_mask(text)
            _, ob2, cb2 = _fn_header(text, m2, it['name'])
            rx = re.compile(ab['regex'])
            pos = ob2 + 1
            hits = []
            for line in text[ob2 + 1:cb2].split('\n'):
                if line.strip() and rx.search(line):
                    hits.append(pos)
                pos += len(line) + 1
            kk = ab.get('occurrence', 1)
            if len(hits) < kk:
                raise LostAnchor("fn %s: R8'' anchor /%s/ occurrence %d not found" % (it['name'], ab['regex'], kk))
            ls = hits[kk - 1]
            depth = 0
            j = ls
            end = None
            while j < cb2:
                if m2[j]:
                    ch = text[j]
                    if ch in '([{':
                        depth += 1
                    elif ch in ')]}':
                        depth -= 1
                    elif ch == ';' and depth == 0:
                        end = j + 1
                        break
                j += 1
            if end is None:
                raise LostAnchor("fn %s: R8'' anchor statement has no end" % it['name'])
            dropped = text[ls:end]
            segs.replace(ls, end, ab['replacement'], 'rewrite', "R8'' statement abstraction")
            log.append({'rule': "R8'' statement abstraction: one statement replaced by an opaque call whose result is named by an uninterpreted spec function", 'item': it['name'],
                        'anchor': ab['regex'], 'dropped_lines': dropped.count('\n') + 1})
        # R8''': block abstraction -- replace the CONTENTS of the block opened at the end of an anchor line (a match arm) by an opaque call
        for ab in it.get('abstract_block', []):
            text = segs.text()
            m2 = rl.code_mask(text)
            _, ob2, cb2 = _fn_header(text, m2, it['name'])
            rx = re.compile(ab['regex'])
            pos = ob2 + 1
            hits = []
            for line in text[ob2 + 1:cb2].split('\n'):
                st = line.rstrip()
                if st.strip() and rx.search(line) and st.endswith('{') and m2[pos + len(st) - 1]:
                    hits.append(pos + len(st) - 1)
                pos += len(line) + 1
            kk = ab.get('occurrence', 1)
            if len(hits) < kk:
                raise LostAnchor("fn %s: R8''' block anchor /%s/ occurrence %d not found" % (it['name'], ab['regex'], kk))
            o2 = hits[kk - 1]
            c2 = rl.match_close(text, m2, o2)
            dropped = text[o2 + 1:c2]
            segs.replace(o2 + 1, c2, '\n' + ab['replacement'] + '\n', 'rewrite', "R8''' block abstraction")
            log.append({'rule': "R8''' block abstraction: the contents of one block (a match arm) replaced by an opaque call", 'item': it['name'],
                        'anchor': ab['regex'], 'dropped_lines': dropped.count('\n')})
        # rewrites (single line, regex)
        for rw in spec.get('rewrites', []):
            if 'only' in rw and it['name'] not in rw['only']:
                continue
            rx = re.compile(rw['pattern'], re.M if rw.get('multiline') else 0)
            text = segs.text()
            m2 = rl.code_mask(text)
            hits = [mm for mm in rx.finditer(text) if m2[mm.start()] or rw.get('in_noncode')]
            for mm in reversed(hits):
                segs.replace(mm.start(), mm.end(), mm.expand(rw['repl']), 'rewrite', rw['rule'])
            rw.setdefault('_count', 0)
            rw['_count'] += len(hits)
            if hits:
                log.append({'rule': rw['rule'], 'item': it['name'], 'pattern': rw['pattern'], 'matches': len(hits)})
        fn_key = it['name'] if it['kind'] == 'fn' else None
        nloops = None
        if fn_key and fn_key in contracts:
            dirs = list(contracts[fn_key])
            if variant and variant.get('fn') == fn_key:
                dirs = dirs + [list(variant['directive']) + [0]]
            if variant and variant.get('drop') and variant.get('fn') == fn_key:
                dirs = [d for d in dirs if not variant['drop'](d)]
            nloops = splice(segs, fn_key, dirs, cfile_of.get(fn_key, cfile))
            used_fns.add(fn_key)
        pieces.append((it, segs, rel, fn_key, (a, b)))
    for rw in spec.get('rewrites', []):
        if rw.get('_count', 0) < rw.get('min', 0):
            raise LostAnchor('rewrite %s /%s/ matched %d times, needs >= %d' % (rw['rule'], rw['pattern'], rw.get('_count', 0), rw.get('min', 0)))
    # alternative forms of one anchor: at least one rule of the group must have matched
    grp = spec.get('require_one_of')
    if grp and not any(rw.get('_count', 0) > 0 for rw in spec.get('rewrites', []) if any(rw['rule'].startswith(g) for g in grp)):
        raise LostAnchor('none of the alternative rewrites %s matched' % grp)
    for k in contracts:
        if k not in used_fns:
            raise LostAnchor('contracts for fn %s but the unit does not extract it' % k)

    # assemble
    out_lines = []   # text lines
    origin = []      # per line: dict
    def emit(text, org):
        for l in text.split('\n'):
            out_lines.append(l)
            origin.append(org)
    emit('// GENERATED by vx/extract.py from %s -- do not edit' % repo, {'kind': 'gen'})
    emit('#![allow(unused_imports, dead_code, unused_variables, unused_mut, unused_assignments)]', {'kind': 'gen'})
    for ca in spec.get('crate_attrs', []):
        emit(ca, {'kind': 'gen'})
    emit('use vstd::prelude::*;', {'kind': 'gen'})
    for u in spec.get('uses', []):
        emit(u, {'kind': 'gen'})
    emit('verus! {', {'kind': 'gen'})
    for p in spec.get('prelude', []):
        pth = os.path.join(vx_dir, 'prelude', p)
        for i, l in enumerate(open(pth).read().rstrip('\n').split('\n'), 1):
            out_lines.append(l)
            origin.append({'kind': 'prelude', 'file': 'vx/prelude/' + p, 'line': i})
    lems = spec.get('lemmas') or []
    if not isinstance(lems, list):
        lems = [lems]
    for lem in lems:
        pth = os.path.normpath(os.path.join(unit_dir, lem))
        for i, l in enumerate(open(pth).read().rstrip('\n').split('\n'), 1):
            out_lines.append(l)
            origin.append({'kind': 'lemmas', 'file': os.path.relpath(pth, os.path.dirname(vx_dir)), 'line': i})
    diffs = []
    for it, segs, rel, fn_key, (a, b) in pieces:
        src, _ = load(rel)
        emit('// ---- extracted: %s %s from %s ----' % (it['kind'], it['name'], rel), {'kind': 'gen'})
        if it.get('wrap'):
            emit(it['wrap'] + ' {', {'kind': 'gen'})
        # walk segments, building lines and per-line origin
        cur = ''
        cur_org = None
        def flush():
            nonlocal cur, cur_org
            out_lines.append(cur)
            origin.append(cur_org or {'kind': 'spec', 'item': it['name']})
            cur, cur_org = '', None
        for sg in segs.s:
            parts = sg.text.split('\n')
            off = sg.off
            for pi, part in enumerate(parts):
                if pi > 0:
                    flush()
                if part.strip():
                    if sg.kind == 'repo':
                        line_no = src.count('\n', 0, off) + 1
                        if cur_org is None or cur_org.get('kind') != 'repo':
                            cur_org = {'kind': 'repo', 'file': rel, 'line': line_no, 'item': it['name']}
                    elif sg.kind == 'rewrite':
                        if cur_org is None:
                            cur_org = {'kind': 'rewrite', 'rule': sg.note, 'file': rel,
                                       'line': src.count('\n', 0, sg.off) + 1 if sg.off is not None else None, 'item': it['name']}
                    else:
                        if cur_org is None:
                            cur_org = {'kind': 'spec', 'note': sg.note, 'item': it['name']}
                cur += part
                if sg.kind == 'repo' and off is not None:
                    off += len(part) + 1
        flush()
        if it.get('wrap'):
            emit('}', {'kind': 'gen'})
        final_text = segs.text()
        d = list(difflib.unified_diff(src[a:b].split('\n'), final_text.split('\n'),
                                      '%s:%s %s (repository)' % (rel, it['kind'], it['name']),
                                      'verified text', lineterm='', n=1))
        diffs.append('\n'.join(d))
    for p in spec.get('prelude_after_items', []):
        pth = os.path.join(vx_dir, 'prelude', p)
        for i, l in enumerate(open(pth).read().rstrip('\n').split('\n'), 1):
            out_lines.append(l)
            origin.append({'kind': 'prelude', 'file': 'vx/prelude/' + p, 'line': i})
    emit('} // verus!', {'kind': 'gen'})
    emit('fn main() {}', {'kind': 'gen'})
    os.makedirs(os.path.dirname(out_path), exist_ok=True)
    with open(out_path, 'w') as f:
        f.write('\n'.join(out_lines) + '\n')
    return {'path': out_path, 'origin': origin, 'lines': out_lines, 'log': log, 'diff': '\n'.join(diffs),
            'functions': sorted(used_fns), 'spec': spec}
