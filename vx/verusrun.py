"""Run Verus on a generated unit file and classify the outcome (DESIGN.md section 4.3)."""
import json
import os
import re
import subprocess
import time

VERUS = os.environ.get('VERUS', 'verus')

# messages that mean "a proof obligation was generated and the solver could not discharge it"
FAIL_PATTERNS = [
    ('postcondition', r'^postcondition not satisfied|unable to prove post-?condition of closure'),
    ('invariant', r'^invariant not satisfied|^loop invariant not satisfied'),
    ('loop-ensures', r'loop ensures|^loop invariant .* not'),
    ('assertion', r'^assertion failed|^assert(ion)? .*failed'),
    ('precondition', r'^precondition not satisfied'),
    ('overflow', r'^possible arithmetic underflow/overflow'),
    ('decreases', r'^decreases not satisfied|could not prove termination'),
    ('division', r'^possible division by zero'),
    ('bounds', r'index out of bounds|possible.*out of bounds'),
    ('unwrap', r'^unreachable|unwrap'),
]
# messages that mean "undecided" (never an alarm)
UNDECIDED_HINTS = [r'rlimit', r'[Rr]esource limit', r'timed? ?out', r'not (yet )?supported', r'unsupported',
                   r'does not (yet |currently )?support', r'Verus internal error', r'panicked']


def run(path, timeout=600, rlimit=None, threads=4):
    cmd = [VERUS, path, '--triggers-mode', 'silent', '--multiple-errors', '50', '--output-json', '--time',
           '--error-format=json', '--num-threads', str(threads)]
    if rlimit:
        cmd += ['--rlimit', str(rlimit)]
    t0 = time.time()
    try:
        p = subprocess.run(cmd, stdout=subprocess.PIPE, stderr=subprocess.PIPE, timeout=timeout, text=True,
                           cwd=os.path.dirname(path))
        out, err, rc = p.stdout, p.stderr, p.returncode
        timed_out = False
    except subprocess.TimeoutExpired as e:
        out = e.stdout or ''
        err = e.stderr or ''
        if isinstance(out, bytes):
            out = out.decode(errors='replace')
        if isinstance(err, bytes):
            err = err.decode(errors='replace')
        rc, timed_out = -1, True
    wall = time.time() - t0
    summary = None
    try:
        summary = json.loads(out)
    except Exception:
        # sometimes non-JSON noise precedes
        i = out.find('{')
        if i >= 0:
            try:
                summary = json.loads(out[i:])
            except Exception:
                summary = None
    diags = []
    for line in err.splitlines():
        line = line.strip()
        if not line.startswith('{'):
            continue
        try:
            d = json.loads(line)
        except Exception:
            continue
        if d.get('$message_type') == 'diagnostic':
            diags.append(d)
    return {'cmd': ' '.join(cmd), 'rc': rc, 'timed_out': timed_out, 'wall_s': wall, 'summary': summary,
            'diags': diags, 'stderr': err, 'stdout': out}


def classify(res, origin, lines):
    """-> dict(status = 'verified'|'failed'|'undecided', failures=[...], undecided=[...], stats)"""
    failures, undecided = [], []
    if res['timed_out']:
        undecided.append({'reason': 'verus timed out'})
    for d in res['diags']:
        if d.get('level') != 'error':
            continue
        msg = d.get('message', '')
        if msg.startswith('aborting due to'):
            continue
        prim = [s for s in d.get('spans', []) if s.get('is_primary')]
        sec = [s for s in d.get('spans', []) if not s.get('is_primary')]
        def where(sp):
            ln = sp.get('line_start')
            org = origin[ln - 1] if ln and 0 < ln <= len(origin) else {'kind': '?'}
            return {'gen_line': ln, 'origin': org, 'text': (lines[ln - 1].strip() if ln and 0 < ln <= len(lines) else '')}
        w = where(prim[0]) if prim else {'gen_line': None, 'origin': {'kind': '?'}, 'text': ''}
        kind = None
        if d.get('code') is None:
            for k, rx in FAIL_PATTERNS:
                if re.search(rx, msg):
                    kind = k
                    break
        if any(re.search(rx, msg) for rx in UNDECIDED_HINTS):
            kind = None
        rec = {'message': msg, 'kind': kind, 'where': w, 'secondary': [where(s) for s in sec][:3],
               'rendered': d.get('rendered', '')}
        if kind is None:
            undecided.append(dict(rec, reason='not a proof-obligation failure (compiler error, unsupported construct, resource limit)'))
        else:
            failures.append(rec)
    # A resource-limit / time-out diagnostic inside a function makes every other failure reported for
    # that function unreliable (the solver gave up, it did not refute anything): undecided, never an alarm.
    gave_up_items = set()
    for u in undecided:
        if re.search(r'rlimit|[Rr]esource limit|timed? ?out', u.get('message', '') or ''):
            gave_up_items.add(((u.get('where') or {}).get('origin') or {}).get('item'))
    if gave_up_items:
        keep = []
        for f in failures:
            if ((f.get('where') or {}).get('origin') or {}).get('item') in gave_up_items:
                undecided.append(dict(f, reason='reported together with a resource-limit diagnostic in the same function'))
            else:
                keep.append(f)
        failures = keep
    summ = res['summary'] or {}
    vr = summ.get('verification-results', {})
    stats = {'verified': vr.get('verified'), 'errors': vr.get('errors'), 'success': vr.get('success')}
    fb = []
    try:
        for m in summ['times-ms']['smt']['smt-run-module-times']:
            fb += m.get('function-breakdown', [])
    except Exception:
        pass
    stats['functions'] = [{'function': f['function'].split('::', 1)[-1], 'mode': f.get('mode:'), 'smt_ms': f.get('time'),
                           'rlimit': f.get('rlimit'), 'success': f.get('success')} for f in fb]
    try:
        stats['smt_ms'] = summ['times-ms']['smt']['total']
        stats['total_ms'] = summ['times-ms']['total']
    except Exception:
        pass
    if res['summary'] is None and not failures and not undecided:
        undecided.append({'reason': 'no JSON summary from verus (rc=%s): %s' % (res['rc'], res['stderr'][-400:])})
    if undecided and not failures:
        status = 'undecided'
    elif failures:
        # failures alongside compile errors cannot happen (verification does not start); alongside
        # resource limits they can: report the failures
        status = 'failed'
    else:
        status = 'verified' if vr.get('success') and (vr.get('errors') == 0) and (vr.get('verified') or 0) > 0 else 'undecided'
        if status == 'undecided':
            undecided.append({'reason': 'verus reported no success and no classified error; rc=%s' % res['rc']})
    return {'status': status, 'failures': failures, 'undecided': undecided, 'stats': stats}


def label(unit, f):
    org = f['where']['origin']
    item = org.get('item', '?')
    if org.get('kind') == 'repo':
        at = '%s:%s' % (org['file'], org['line'])
    elif org.get('kind') == 'spec':
        at = 'contract[%s]' % org.get('note', '')
    elif org.get('kind') == 'rewrite':
        at = '%s:%s(rewritten by %s)' % (org.get('file'), org.get('line'), str(org.get('rule')).split(' ')[0])
    else:
        at = '%s:%s' % (org.get('file', org.get('kind')), org.get('line', ''))
    return '%s/%s/%s@%s `%s`' % (unit, item, f['kind'], at, f['where']['text'][:100])
