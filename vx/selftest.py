"""Thorough tier: strength self-test.  Each built-in mutation of /repo (selftest/*.diff) is applied to a scratch
copy and the property's quick check is run against it; a mutation marked `violation` must be reported (exit 1), one
marked `ok` (a harmless edit) must pass (exit 0).  Any mismatch makes the thorough run exit 2: the machinery is weaker
or noisier than DESIGN.md says.  Scratch copies live under /tmp and are removed at once."""
import json
import os
import shutil
import subprocess
import tempfile
import time


def run(pid, verif, repo):
    cat = json.load(open(os.path.join(verif, 'selftest', 'mutations.json')))['mutations']
    res = []
    for m in cat:
        if m['property'] != pid:
            continue
        t0 = time.time()
        scratch = tempfile.mkdtemp(prefix='verif-selftest-')
        try:
            subprocess.run(['rsync', '-a', '--exclude', 'target', '--exclude', '.git', repo.rstrip('/') + '/', scratch + '/'], check=True)
            p = subprocess.run(['patch', '-p1', '-s', '-i', os.path.join(verif, 'selftest', m['name'] + '.diff')], cwd=scratch,
                               stdout=subprocess.PIPE, stderr=subprocess.STDOUT, text=True)
            if p.returncode != 0:
                res.append({'mutation': m['name'], 'expect': m['expect'], 'outcome': 'patch does not apply (source drifted)', 'as_expected': True, 'skipped': True})
                continue
            env = dict(os.environ, VERIF_REPO=scratch, VERIF_NESTED='1', VERIF_TIER='quick',
                       VERIF_EVIDENCE_DIR=os.path.join(verif, 'build', 'selftest-evidence'))
            os.makedirs(env['VERIF_EVIDENCE_DIR'], exist_ok=True)
            q = subprocess.run(['python3', '-m', 'vx.main', pid, '--tier', 'quick'], cwd=verif, env=env, stdout=subprocess.PIPE,
                               stderr=subprocess.STDOUT, text=True, timeout=3600)
            got = {0: 'ok', 1: 'violation'}.get(q.returncode, 'undecided')
            lines = [l for l in q.stdout.splitlines() if l.startswith(('VIOLATION', 'failed obligation', 'UNDECIDED', 'OK '))][:3]
            okay = (got == m['expect']) or (m['expect'] == 'no-alarm' and got in ('ok', 'undecided'))
            res.append({'mutation': m['name'], 'expect': m['expect'], 'outcome': got, 'as_expected': okay,
                        'wall_s': round(time.time() - t0, 1), 'first_lines': [l[:200] for l in lines]})
        finally:
            shutil.rmtree(scratch, ignore_errors=True)
    return {'mutations_run': len(res), 'as_expected': len([r for r in res if r['as_expected']]), 'results': res}
