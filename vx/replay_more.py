"""Replay searches for the non-formatter units: exhaustive / catalogue runs of the REAL crates
through their public API (replay/src/more.rs).  An aid, never the decider."""
import re
import subprocess

from .replay import _run

PRIM_INDEX = {'bool': 0, 'char': 1, 'str': 2, 'u8': 3, 'u16': 4, 'u32': 5, 'u64': 6, 'u128': 7, 'u256': 8,
              'i8': 9, 'i16': 10, 'i32': 11, 'i64': 12, 'i128': 13, 'i256': 14}


def args_for(unit, failure, tier='quick'):
    item = ((failure.get('where') or {}).get('origin') or {}).get('item', '')
    if unit == 'U-DERIVES':
        return [['c08-resolve'], ['c18-upcast'], ['c16-builders']] if item in ('resolve', 'extend_from') else [['c18-upcast'], ['c08-resolve'], ['c16-builders']]
    if unit == 'U-TYPEIR':
        return [['c08-typeir'], ['c18-upcast'], ['c08-resolve'], ['c16-builders']] if item in ('create_type_ir', 'resolve_derives_for_type') else [['c18-upcast'], ['c08-resolve'], ['c16-builders'], ['c08-typeir']]
    if unit == 'U-FLATTEN':
        return [['c08-flatten'], ['c08-reach'], ['c16-builders']] if item != 'collect_type_ids' else [['c08-reach'], ['c08-flatten']]
    if unit == 'U-REACH':
        return ['c08-reach']
    if unit == 'U-COMPACTAS' or unit in ('kani:uint_predicate_table', 'kani:compact_as_unnamed_upto3'):
        return ['c08-compactas']
    if unit in ('U-SANITY', 'U-CALLS') or unit == 'kani:sanity_pass_upto4':
        return ['c10-sanity']
    if unit == 'U-SUBST':
        return ['c16-subst']
    if unit == 'U-BUILDERS':
        return ['c16-builders']
    if unit == 'U-MIXED':
        return ['c10-mixed']
    if unit == 'U-RESOLVE':
        return ['c10-resolve']
    if unit == 'U-PATHS':
        return ['c10-paths']
    if unit == 'U-DESCTEXT':
        return ['c13-text']
    if unit == 'U-SIMILAR':
        return ['c11-similar']
    if unit == 'U-TYEX':
        return ['c12-structure', '2000' if tier == 'thorough' else '300']
    if unit.startswith('kani:contains_type_path') or unit == 'U-CONTAINS':
        return ['c11-contains']
    if unit == 'U-VALIDATE':
        return [['c11-validate'], ['c11-contains']] if item != 'registry_contains_type_path' else [['c11-contains'], ['c11-validate']]
    if unit == 'kani:primnames_table':
        return ['c13-primnames']
    m = re.match(r'kani:primex_([a-z0-9]+)', unit)
    if m:
        return ['c12-primex', '4000000' if tier == 'thorough' else '400000', str(PRIM_INDEX[m.group(1)])]
    return None


def search(tool, pid, unit, failure, tier, seed):
    a = args_for(unit, failure, tier)
    if a is None:
        return {'found': False, 'tried': ['no concrete search implemented for unit %s' % unit]}
    alts = a if (a and isinstance(a[0], list)) else [a]
    tried = []
    for a in alts:
        try:
            rc, js = _run(tool, a, 1500)
        except subprocess.TimeoutExpired:
            tried.append('%s timed out' % ' '.join(a))
            continue
        if js.get('found'):
            return {'found': True, 'input_id': '%s:%s' % (a[0], js.get('input')), 'replay_args': a,
                    'describe': '%s: %s' % (js.get('input'), js.get('violations')), 'violations': js.get('violations'),
                    'tried': tried + ['%s -> tried %s' % (' '.join(a), js.get('tried'))]}
        tried.append('%s -> tried %s inputs on the real code, none fails' % (' '.join(a), js.get('tried')))
    return {'found': False, 'tried': tried}
