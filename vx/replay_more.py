"""Replay searches for the non-formatter units (filled in per unit)."""


def search(tool, pid, unit, failure, tier, seed):
    return {'found': False, 'tried': ['no concrete search implemented for unit %s' % unit]}
