"""Which units decide which property (DESIGN.md sections 1, 5)."""

VERUS_UNITS = ['U-FMT', 'U-REACH', 'U-COMPACTAS', 'U-SANITY', 'U-RESOLVE', 'U-CONTAINS', 'U-CALLS', 'U-DESCR', 'U-DERIVES', 'U-MIXED', 'U-BUILDERS', 'U-SUBST', 'U-VALIDATE', 'U-FLATTEN', 'U-PATHS', 'U-TYPEIR', 'U-TYEX', 'U-SIMILAR', 'U-DESCTEXT']

PROPS = {
    'C15': {
        'level': 'proof',
        'verus': ['U-FMT'],
        'kani': [],
        'trusted_base': [
            'Verus 0.2026.09.13 (vstd specifications of String::push/push_str/new, Vec, Option, slice iteration, Range), Z3, rustc 1.98.1',
            'peekmore 1.3.0: the methods the formatter uses (next, peek_amount, peek_range, fill_queue, push_next_to_queue, decrement_cursor) are extracted from the dependency source pinned by Cargo.lock, instantiated at I = Chars (rule R2p) and VERIFIED (U-PEEK); assumed: std::str::Chars as a fused iterator over the chars of the string (vx/prelude/chars_shim.rs); the cursor-moving methods (peek, advance_cursor, next_if_eq, ...) have assumed contracts and are not used by the code as shipped',
            'SmallVec<[Scope; 8]> behaves as Vec<Scope> for push/pop/last (rewrite R2)',
            'a &str holds at most isize::MAX bytes (Rust allocation guarantee), stated in PeekChars::new',
        ],
        'assumptions': [
            'memory allocation for the output String succeeds (allocation failure / capacity overflow is not modelled by vstd)',
            'extraction rules R0-R2, R6 (listed with match counts in coverage.units[].extraction_rules_applied) preserve meaning',
        ],
        'not_covered': [],
    },
    'C08': {
        'level': 'proof',
        'verus': ['U-REACH', 'U-COMPACTAS', 'U-DERIVES', 'U-FLATTEN', 'U-TYPEIR'],
        'kani': ['uint_predicate_table', 'compact_as_unnamed_upto3'],
        'trusted_base': ['Verus 0.2026.09.13, Z3, rustc 1.98.1'],
        'assumptions': [
            'precondition closed(R): every id mentioned by a registry entry resolves (DESIGN.md section 3 clause 2)',
            'flatten_recursive_derives: precondition ids consistent (id == position; generate_types_mod runs sanity_pass first); ASSUMED std contracts (vx/prelude/flatten_shim.rs): HashMap<syn::TypePath,_> / HashMap<u32,_> as mathematical maps (is_empty, get, remove, entry(k).or_default(), consuming iteration = every entry exactly once), HashSet extend = union / clone = identity, consuming iteration over HashSet<u32> = every member exactly once, derived Default of Derives = two empty sets; the statement building syn_path_for_id (syn_type_path over the registry) is abstracted (R8\'\'): the contract is relative to that id -> path map',
        ],
        'not_covered': [
            'flatten_recursive_derives: how the id -> syn path map is computed (syn_type_path; abstracted), and which of several registry types sharing one path counts as the root of a recursive registration (the contract allows the first or all)',
            'derive/attribute token emission (Derives::to_tokens)',
            'create_type_ir: the statements that build syn values (type name, enum variants), docs, create_composite_ir_kind beyond its mixed-fields check, syn_type_path, TypeParameters::from_scale_info are opaque calls (R8\'\'); the contract is stated over whatever composite kind is returned',
        ],
    },
    'C10': {
        'level': 'proof',
        'verus': ['U-SANITY', 'U-RESOLVE', 'U-CALLS', 'U-MIXED', 'U-PATHS'],
        'kani': ['sanity_pass_upto4'],
        'trusted_base': ['Verus 0.2026.09.13, Z3, rustc 1.98.1'],
        'assumptions': [
            'sanity_pass: registry has at most 2^32 entries (the `idx as u32` truncation made explicit)',
        ],
        'not_covered': [
            'everything generate_types_mod and ensure_unique_type_paths do AFTER their sanity_pass(..)? line (abstracted by rule R8)',
            'everything create_composite_ir_kind does after the mixed-fields check (abstracted by rule R8)',
            'resolve_type_path_recurse: everything before its `match` on the type definition (parent-parameter shortcut, resolve_type and the propagation of TypeNotFound, Cow, own parameters: abstracted by rule R8\'), the Tuple arm\'s map/collect (R8\'\'), termination of the recursion; for a Compact type without a configured path the contract says "an error" (CompactPathNone unless resolving the inner type fails first), for a BitSequence exactly DecodedBitsPathNone',
            '"never panics on well-formed registries": whole-program statement over token-producing functions',
        ],
    },
    'C13': {
        'level': 'proof',
        'verus': ['U-DESCR', 'U-DESCTEXT'],
        'kani': ['primnames_table', 'primnames_in_type_name'],
        'trusted_base': [
            'Verus 0.2026.09.13, Z3, rustc 1.98.1',
            'peekmore 1.3.0 next / peek_amount verified from the dependency source (U-PEEK); std::str::Chars assumed; SmallVec as Vec; &str <= isize::MAX bytes',
        ],
        'assumptions': [
            'everything type_description does before the formatting decision (Transformer construction, policies, resolve) is abstracted by rule R8-head: its result is an arbitrary string named by an uninterpreted spec function',
            'U-DESCTEXT (ty_description, type_def_type_description, tuple_type_description, variant_type_def_type_description, variant_type_description, fields_type_description, field_type_description): relative to what Transformer::resolve returns for each child (ASSUMED contract, uninterpreted relation is_descr), under assumed std contracts for Peekable (next / peek), slice.iter().all, format! with plain holes (fmt1 / fmt2), String == &str, String::to_string; the Box test of a field (Option::map + str::contains) is an opaque call; the primitive name table is assumed here (proved by the Kani harness primnames_table)',
            'memory allocation for the output String succeeds',
        ],
        'not_covered': [
            'termination of the description on cyclic graphs and the expand-once policy (Transformer::resolve: RefCell<HashMap>, function pointers)',
            'faithfulness of the text outside the seven functions of U-DESCTEXT: names with generic arguments (type_name_with_type_params beyond its Primitive arm; opaque, uninterpreted name_text)',
        ],
    },
    'C12': {
        'level': 'proof',
        'verus': ['U-TYEX'],
        'kani': ['primex_bool', 'primex_u8', 'primex_u16', 'primex_u32', 'primex_u64', 'primex_u128', 'primex_i8', 'primex_i16',
                 'primex_i32', 'primex_i64', 'primex_i128', 'primex_u256', 'primex_i256', 'primex_char_bounded', 'primex_str_bounded'],
        'trusted_base': ['Kani 0.68.0, CBMC 6.11.0 / CaDiCaL, rustc (Kani toolchain)',
                         'rand 0.8.5 Standard / Uniform distributions are verified as compiled (not stubbed)',
                         'Verus 0.2026.09.13, Z3, rustc 1.98.1 (U-TYEX)'],
        'assumptions': [
            'scale-value encodes Primitive::U128(v) against uN iff v < 2^N, Primitive::I128(v) against iN iff -2^(N-1) <= v < 2^(N-1), Bool/Char/String/U256/I256 against their own kind (read from scale-value 0.18 encode impl; not verified here)',
            'mem::forget of the returned Value (its recursive drop glue is not executed symbolically)',
            'U-TYEX (ty_example, fields_type_example): partial correctness relative to the ASSUMED contract of Transformer::resolve (an Ok result is valid for the id asked for -- the induction hypothesis), with valid_def my one-level transcription of scale-encode\'s acceptance rules and, for a compact type, C12\'s own restriction (compact wraps unsigned integers or single-field wrappers of them); assumed std / scale-value contracts listed in vx/prelude/tyex_shim.rs',
        ],
        'not_covered': [
            'the recursion-to-error marker and termination (Transformer::resolve: RefCell<HashMap> + function pointers; outside both verifiers)',
            'in ty_example: the BitSequence arm is an opaque call (R8\'\'\'); which variant is drawn is the rng\'s business (assumed: one of the list, None iff empty)',
            'seed determinism, the decode half of the round trip, "a value is returned whenever no cycle and no empty enum" (the concrete oracle c12-structure tests them on a catalogue registry; a test, not a proof)',
        ],
    },
    'C11': {
        'level': 'proof',
        'verus': ['U-CONTAINS', 'U-VALIDATE', 'U-SIMILAR'],
        'kani': ['contains_type_path_catalogue', 'contains_type_path_catalogue2', 'contains_type_path_n1'],
        'trusted_base': ['Verus 0.2026.09.13, Z3, rustc 1.98.1'],
        'assumptions': [
            'ASSUMED std contracts: Vec<T> == [U] (length + pairwise), String == String (contents), slice.iter().any(f) (exists) -- vx/prelude/std_any_eq.rs',
            'ASSUMED std contracts (vx/prelude/similar_shim.rs, U-SIMILAR): Option::filter, slice iter + filter_map + collect = the Some-results in order, `&String == &String` as `*a == *b`; scale-info Path::ident = clone of the last segment',
            'ASSUMED std contracts (vx/prelude/validate_shim.rs): HashMap::iter() yields every entry, chain() concatenates, next() walks front to back; iter_mut().find(f) = first entry on which f holds (as &mut); HashSet::extend(s.iter().cloned()) = union, is_empty = no element, clone = identity; derived Default of SettingsValidationError = three empty vectors; syn::Path == is equality of the opaque values; path_segments / path_segments_to_syn_path opaque (panics of the latter not covered); syn::TypePath modelled by its `path` field',
        ],
        'not_covered': [
            'similar_type_paths_in_registry: how the query syn::Path is turned into segment strings and how a syn::Path is built from a registry path (parse_quote!; opaque calls named by uninterpreted functions); panics of syn::parse_str on a registry path segment that is not an identifier',
            'panics inside path_segments_to_syn_path (empty or non-identifier substitute key)',
        ],
    },
    'C18': {
        'level': 'proof',
        'verus': ['U-DERIVES'],
        'kani': [],
        'trusted_base': ['Verus 0.2026.09.13, Z3, rustc 1.98.1'],
        'assumptions': [
            'ASSUMED std contracts: HashSet / HashMap over opaque syn keys as mathematical set / map; parse_quote!(#path) yields the same path; derived Clone is structural',
        ],
        'not_covered': [
            'the first sentence of C18 (wire-faithful shape of the field list): create_composite_ir_kind and struct token emission reach syn / proc_macro2',
            'token emission of the derives and attributes (Derives::to_tokens)',
        ],
    },
    'C16': {
        'level': 'proof',
        'verus': ['U-BUILDERS', 'U-DERIVES', 'U-SUBST', 'U-FLATTEN'],
        'kani': [],
        'trusted_base': ['Verus 0.2026.09.13, Z3, rustc 1.98.1'],
        'assumptions': [
            'ASSUMED std contracts: HashSet::extend(iter) = union with the items of the iterator; HashMap::entry(k).or_default(); Derives::default() = two empty sets; HashSet / HashMap over opaque syn keys as mathematical set / map',
        ],
        'not_covered': [
            'of the second sentence of C16: which insertions are rejected and with which error kind, and that generic arguments of the source path are ignored (parse_path_substitution / absolute_path: syn::Path surgery, opaque here)',
        ],
    },
}
