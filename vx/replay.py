"""Concrete counterexample search / replay on the real crates (DESIGN.md section 4.6).

This is an AID: it never turns a verifier pass into a failure or the other way round; it only
decides whether a VIOLATION line carries a replayable input or `no-failing-input-found`."""
import json
import os
import shutil
import subprocess


def build_tool(repo, verif):
    proj = os.path.join(verif, 'build', 'replay-proj')
    os.makedirs(proj, exist_ok=True)
    man = open(os.path.join(verif, 'replay', 'Cargo.toml.in')).read().replace('@REPO@', os.path.abspath(repo))
    mp = os.path.join(proj, 'Cargo.toml')
    if not os.path.exists(mp) or open(mp).read() != man:
        open(mp, 'w').write(man)
    shutil.copy(os.path.join(repo, 'Cargo.lock'), os.path.join(proj, 'Cargo.lock'))
    dst = os.path.join(proj, 'src')
    if os.path.isdir(dst):
        shutil.rmtree(dst)
    shutil.copytree(os.path.join(verif, 'replay', 'src'), dst)
    env = dict(os.environ, CARGO_NET_OFFLINE='true', CARGO_TARGET_DIR=os.path.join(verif, 'build', 'replay-target'))
    p = subprocess.run(['cargo', 'build', '--offline', '--quiet'], cwd=proj, env=env, stdout=subprocess.PIPE,
                       stderr=subprocess.STDOUT, text=True, timeout=1800)
    if p.returncode != 0:
        raise RuntimeError('replay tool does not build against the current tree:\n' + p.stdout[-3000:])
    return os.path.join(verif, 'build', 'replay-target', 'debug', 'vreplay')


def _run(tool, args, timeout):
    p = subprocess.run([tool] + args, stdout=subprocess.PIPE, stderr=subprocess.PIPE, text=True, timeout=timeout)
    last = [l for l in p.stdout.strip().splitlines() if l.startswith('{')]
    try:
        return p.returncode, json.loads(last[-1]) if last else {}
    except Exception:
        return p.returncode, {'raw': p.stdout[-500:]}


def search(pid, unit, failure, repo, verif, tier, seed):
    tool = build_tool(repo, verif)
    kind = failure.get('kind')
    if unit == 'U-FMT':
        tried = []
        if kind == 'overflow':
            # counters move by one per input character: the only inputs that can overflow a 32-bit counter are
            # 2^31 + 1 characters long.  Unbalanced closers are the cheap direction (no indentation is emitted).
            n = (1 << 31) + 1
            for unitstr in ['}']:
                try:
                    rc, js = _run(tool, ['fmt-repeat', unitstr, str(n)], 1500)
                except subprocess.TimeoutExpired:
                    tried.append('fmt-repeat %r x %d timed out' % (unitstr, n))
                    continue
                tried.append('fmt-repeat %r x %d -> %s' % (unitstr, n, js.get('violations')))
                if js.get('violations'):
                    return {'found': True, 'input_id': 'fmt-repeat:%s:%d' % (unitstr, n), 'replay_args': ['fmt-repeat', unitstr, str(n)],
                            'describe': '"%s".repeat(%d): %s' % (unitstr, n, js['violations']), 'violations': js['violations'], 'tried': tried}
        rc, js = _run(tool, ['fmt-search', '7' if tier == 'thorough' else '6', str(seed)], 1500)
        tried.append('fmt-search -> %s' % js)
        if js.get('found'):
            return {'found': True, 'input_id': 'fmt-one:' + js['input'], 'replay_args': ['fmt-one', js['input']],
                    'describe': '%r: %s' % (js['input'], js['violations']), 'violations': js['violations'], 'tried': tried}
        return {'found': False, 'tried': tried}
    from . import replay_more
    return replay_more.search(tool, pid, unit, failure, tier, seed)


def replay_file(path, repo, verif):
    rp = json.load(open(path))
    print('replaying %s' % path)
    print('failed obligation: %s' % rp.get('obligation'))
    print(rp.get('verifier_output', ''))
    c = rp.get('concrete') or {}
    if not c.get('found'):
        print('no concrete input was recorded for this obligation (no-failing-input-found); verifier output above')
        return 1
    tool = build_tool(repo, verif)
    rc, js = _run(tool, c['replay_args'], 3000)
    print(json.dumps(js))
    if rc != 0:
        print('REPRODUCED on the current tree: %s' % c.get('describe'))
        return 1
    print('not reproduced on the current tree')
    return 0


PROACTIVE = {
    'C15': [['fmt-search', '7', '{seed}']],
    'C13': [['fmt-search', '6', '{seed}'], ['c13-primnames'], ['c13-text']],
    'C08': [['c08-reach'], ['c08-compactas'], ['c08-resolve'], ['c08-flatten'], ['c08-typeir']],
    'C18': [['c18-upcast']],
    'C16': [['c16-builders'], ['c16-subst'], ['c08-flatten']],
    'C10': [['c10-sanity'], ['c10-resolve'], ['c10-mixed'], ['c10-paths']],
    'C11': [['c11-contains'], ['c11-validate'], ['c11-similar']],
    'C12': [['c12-primex', '2000'], ['c12-structure', '2000']],
}


def proactive(pid, P, repo, verif, seed, known_input_ids):
    """Thorough tier: run the concrete oracles although nothing failed.  Reported, never proof; a failing input that
    is not a recorded known finding is a disagreement between oracle and proofs (exit 2, see main)."""
    tool = build_tool(repo, verif)
    runs, dis = [], []
    for a in PROACTIVE.get(pid, []):
        a = [x.replace('{seed}', str(seed)) for x in a]
        if a[0] == 'c12-primex':
            # one run per primitive so that the three known findings do not mask the others
            for i in range(15):
                try:
                    rc, js = _run(tool, a + [str(i)], 1500)
                except subprocess.TimeoutExpired:
                    runs.append({'cmd': ' '.join(a + [str(i)]), 'result': 'timeout'})
                    continue
                iid = 'c12-primex:%s' % js.get('input') if js.get('found') else None
                runs.append({'cmd': ' '.join(a + [str(i)]), 'tried': js.get('tried'), 'found': bool(js.get('found')), 'known': iid in known_input_ids if iid else None})
                if js.get('found') and iid not in known_input_ids:
                    dis.append({'cmd': ' '.join(a + [str(i)]), 'input': js.get('input'), 'violations': js.get('violations')})
            continue
        try:
            rc, js = _run(tool, a, 3000)
        except subprocess.TimeoutExpired:
            runs.append({'cmd': ' '.join(a), 'result': 'timeout'})
            continue
        runs.append({'cmd': ' '.join(a), 'tried': js.get('tried'), 'found': bool(js.get('found'))})
        if js.get('found'):
            dis.append({'cmd': ' '.join(a), 'input': js.get('input'), 'violations': js.get('violations')})
    return {'note': 'concrete oracle on the real crates, run proactively; an aid, not proof', 'runs': runs, 'disagreements': dis}
