"""Kani harness runner (DESIGN.md section 4.4).

Harness sources live in /verif/kani/*.rs and are compiled INTO the real crates through the
cfg(kani) hooks.  `cargo kani` is run in the repository's working tree itself with an external
--target-dir, so nothing is written into /repo and the build always reflects the current tree.

A harness is reported as
  complete  -- loop-free (or constant trip counts fully unrolled, unwinding assertions on) and its
               symbolic inputs span the function's whole domain: counted under obligations/discharged;
  bounded   -- otherwise: reported under coverage.bounded with its bound, never counted as proved.
"""
import fcntl
import os
import re
import subprocess
import time

# harness catalogue: name -> (crate, complete?, bound text, tier, serves)
HARNESSES = {
    # U-PRIMNAMES
    'primnames_table': dict(crate='scale-typegen-description', file='description.rs', complete=True, bound=None, tier='quick',
                            what='primitive_type_description names all 15 primitives as the property states'),
    'primnames_in_type_name': dict(crate='scale-typegen-description', file='description.rs', complete=True, bound=None, tier='quick',
                                   what='type_name_with_type_params (Primitive arm) refers to all 15 primitives by the table name'),
    # U-PRIMEX
    **{('primex_' + n): dict(crate='scale-typegen-description', file='scale_value.rs', complete=True, bound=None, tier='quick',
                             what='primitive_type_def_example(%s, any RNG stream) has the right kind and fits the width' % n)
       for n in ['bool', 'u8', 'u16', 'u32', 'u64', 'u128', 'i8', 'i16', 'i32', 'i64', 'i128', 'u256', 'i256']},
    'primex_char_bounded': dict(crate='scale-typegen-description', file='scale_value.rs', complete=False, tier='quick',
                                bound='RNG streams that make SliceRandom::choose reject fewer than 8 times',
                                what='Char example is a Primitive::Char'),
    'primex_str_bounded': dict(crate='scale-typegen-description', file='scale_value.rs', complete=False, tier='quick',
                               bound='RNG streams that make SliceRandom::choose reject fewer than 8 times',
                               what='Str example is a Primitive::String'),
    # typegen crate
    'sanity_pass_upto4': dict(crate='scale-typegen', file='typegen.rs', complete=False, tier='quick',
                              bound='registries of 0..4 entries with unconstrained u32 ids; alloc::fmt::format stubbed',
                              what='UNMODIFIED sanity_pass: Ok <=> ids consistent; error names a genuine mismatch', stub='alloc :: fmt :: format'),
    'uint_predicate_table': dict(crate='scale-typegen', file='typegen.rs', complete=False, tier='quick',
                                 bound='TypePathType in {Primitive x 15, Vec, Array, Tuple} (the variants constructible without syn/proc_macro2)',
                                 what='is_uint_up_to_u128 on the real crate'),
    'compact_as_unnamed_upto3': dict(crate='scale-typegen', file='typegen.rs', complete=False, tier='quick',
                                     bound='NoFields / Unnamed with <= 3 fields; first field symbolic over {Primitive x 15, Vec, Array, Tuple}',
                                     what='could_derive_as_compact on the real crate'),
    'contains_type_path_catalogue': dict(crate='scale-typegen', file='typegen.rs', complete=False, tier='quick',
                                         bound='one fixed registry {a::b, c} x 7 fixed query paths (no symbolic data)',
                                         what='UNMODIFIED registry_contains_type_path separates exact equality from prefix / suffix / last-segment / length-only comparison'),
    'contains_type_path_catalogue2': dict(crate='scale-typegen', file='typegen.rs', complete=False, tier='quick',
                                          bound='one fixed registry {a::m::b, p::k, q::k, a_b::c} x 7 fixed query paths (no symbolic data)',
                                          what='UNMODIFIED registry_contains_type_path: middle segments, shared last segment, permutation, separator confusion'),
    'contains_type_path_n1': dict(crate='scale-typegen', file='typegen.rs', complete=False, tier='thorough',
                                  bound='<= 1 registry type, paths of <= 1 segment over the pool {"a","b"}',
                                  what='UNMODIFIED registry_contains_type_path <=> some registry type has exactly this path (cross-check of the assumed std contracts of U-CONTAINS)'),
}

LOCK = '/tmp/verif-kani.lock'


def run_group(pid, names, tier, repo, verif, build):
    """Run the named harnesses (one cargo-kani invocation per crate).  Returns one result per harness."""
    results = []
    by_crate = {}
    for n in names:
        h = HARNESSES[n]
        if h['tier'] == 'thorough' and tier != 'thorough':
            continue
        by_crate.setdefault(h['crate'], []).append(n)
    os.makedirs(build, exist_ok=True)
    target = os.path.join(build, 'kani-target')
    env = dict(os.environ, CARGO_NET_OFFLINE='true', SCALE_TYPEGEN_VERIF_DIR=verif)
    with open(LOCK, 'w') as lk:
        fcntl.flock(lk, fcntl.LOCK_EX)   # one cargo-kani at a time on the shared target dir
        # Kani collects harness artifacts from every package-hash directory of the target dir, so artifacts of the
        # workspace crates built from ANOTHER source path (a scratch copy used by the self-test or by tools/mut.sh)
        # would be picked up as if they belonged to this tree.  Remove the workspace crates' artifacts before every
        # run; the dependencies stay cached.  (Observed: a stale mutated harness reported on the unchanged tree.)
        purge_workspace_artifacts(target)
        for crate, hs in by_crate.items():
            cmd = ['cargo', 'kani', '-p', crate, '--target-dir', target, '-Z', 'function-contracts', '-Z', 'stubbing',
                   '--output-format', 'terse', '-j', str(min(8, len(hs)))]
            for h in hs:
                cmd += ['--harness', h]
            t0 = time.time()
            try:
                p = subprocess.run(cmd, cwd=repo, env=env, stdout=subprocess.PIPE, stderr=subprocess.STDOUT, text=True,
                                   timeout=3600 if tier == 'thorough' else 1500)
                out, rc, to = p.stdout, p.returncode, False
            except subprocess.TimeoutExpired as e:
                out = (e.stdout or b'').decode(errors='replace') if isinstance(e.stdout, bytes) else (e.stdout or '')
                rc, to = -1, True
                subprocess.run(['pkill', 'cbmc'])
            wall = time.time() - t0
            per = parse(out, hs)
            for h in hs:
                meta = HARNESSES[h]
                r = {'unit': 'kani:' + h, 'engine': 'kani', 'harness': h, 'complete': meta['complete'], 'bound': meta.get('bound'),
                     'checker_cmd': ' '.join(cmd), 'failures': [], 'undecided': [], 'wall_s': wall / max(1, len(hs)),
                     'scan_paths': [os.path.join(verif, 'kani', meta['file'])]}
                ph = per.get(h)
                if to or ph is None:
                    why = 'cargo kani timed out' if to else 'no result for harness in Kani output (compile error, ICE or harness missing): ' + tail(out)
                    r.update(status='undecided', undecided=[{'reason': why}])
                    results.append(r)
                    continue
                r['checks'] = ph['total']
                r['checks_ok'] = ph['total'] - ph['failed']
                r['evidence'] = {'what': meta['what'], 'cbmc_checks': ph['total'], 'failed': ph['failed'], 'unreachable': ph['unreachable'],
                                 'covers': '%d of %d' % (ph['cov_ok'], ph['cov_total']), 'verification_time_s': ph['time'],
                                 'backend': 'Kani 0.68.0 -> CBMC 6.11.0 (CaDiCaL)', 'complete': meta['complete'], 'bound': meta.get('bound')}
                if ph['result'] == 'SUCCESSFUL':
                    if ph['cov_ok'] != ph['cov_total']:
                        r.update(status='undecided', undecided=[{'reason': 'vacuity guard: only %d of %d cover properties satisfied' % (ph['cov_ok'], ph['cov_total'])}])
                    elif meta.get('stub') and meta['stub'] not in ph['text']:
                        r.update(status='undecided', undecided=[{'reason': 'expected stub line `%s` not printed by Kani' % meta['stub']}])
                    else:
                        r['status'] = 'verified'
                else:
                    fails = ph['failed_checks']
                    infra = [f for f in fails if re.search(r'unwinding assertion|unsupported|not supported|recursion unwinding', f, re.I)]
                    real = [f for f in fails if f not in infra]
                    if real:
                        r['status'] = 'failed'
                        for f in real:
                            r['failures'].append({'kind': 'kani-assertion', 'message': f, 'label': 'kani:%s/%s' % (h, f),
                                                  'rendered': ph['text'][-3000:], 'where': {'text': f, 'origin': {'kind': 'kani', 'file': 'kani/' + meta['file']}}})
                    else:
                        r.update(status='undecided', undecided=[{'reason': 'Kani failed without a property failure (unwinding / unsupported construct): %s' % (infra or tail(ph['text']))}])
                results.append(r)
    return results


def purge_workspace_artifacts(target):
    import glob
    import shutil
    for pat in ('kani/*/debug/build/scale-typegen*', 'kani/*/debug/incremental/scale_typegen*', 'kani/*/debug/libscale_typegen*',
                'kani/*/debug/.fingerprint/scale-typegen*', 'kani/*/debug/deps/*scale_typegen*'):
        for pth in glob.glob(os.path.join(target, pat)):
            if os.path.isdir(pth):
                shutil.rmtree(pth, ignore_errors=True)
            else:
                try:
                    os.remove(pth)
                except OSError:
                    pass


def tail(s, n=600):
    return (s or '')[-n:]


def parse(out, names):
    """terse multi-thread output -> {harness: {...}}"""
    cur = {}      # thread -> harness
    blocks = {}   # harness -> text
    last_thread = None
    single = None
    for line in out.splitlines():
        m = re.match(r'(?:Thread (\d+): )?Checking harness (\S+?)\.\.\.', line)
        if m:
            t = m.group(1) or 'main'
            short = m.group(2).split('::')[-1]
            cur[t] = short
            blocks.setdefault(short, '')
            last_thread = t
            continue
        m = re.match(r'Thread (\d+): ?(.*)', line)
        if m:
            last_thread = m.group(1)
            line = m.group(2)
        if last_thread in cur:
            blocks[cur[last_thread]] += line + '\n'
    res = {}
    for h, text in blocks.items():
        m = re.search(r'\*\* (\d+) of (\d+) failed(?: \((\d+) unreachable\))?', text)
        v = re.search(r'VERIFICATION:- (\w+)', text)
        if not v:
            continue
        c = re.search(r'\*\* (\d+) of (\d+) cover properties satisfied', text)
        tm = re.search(r'Verification Time: ([\d\.]+)s', text)
        failed_checks = re.findall(r'Failed Checks: (.*)', text)
        res[h] = {'failed': int(m.group(1)) if m else 0, 'total': int(m.group(2)) if m else 0,
                  'unreachable': int(m.group(3) or 0) if m else 0, 'result': v.group(1),
                  'cov_ok': int(c.group(1)) if c else 0, 'cov_total': int(c.group(2)) if c else 0,
                  'time': float(tm.group(1)) if tm else None, 'failed_checks': failed_checks, 'text': text}
    return res
