"""Kani harness runner (DESIGN.md section 4.4) -- filled in with the Kani units."""


def run_group(pid, harnesses, tier, repo, verif, build):
    return []
