"""./check <Cnn> [--tier quick|thorough] [--replay <file>]   (DESIGN.md section 10)

Exit codes: 0 property held on everything decided; 1 + `VIOLATION property=<id> replay=<path>`
a named obligation that is discharged on the unchanged tree failed; 2 undecided (lost anchor,
unsupported construct, resource limit, tool crash) -- never an alarm.
"""
import argparse
import concurrent.futures as cf
import hashlib
import json
import os
import re
import shutil
import subprocess
import sys
import time

from . import extract, verusrun, kanirun, replay
from .props import PROPS, VERUS_UNITS

VERIF = os.path.dirname(os.path.dirname(os.path.abspath(__file__)))
REPO = os.environ.get('VERIF_REPO', '/repo')
BUILD = os.path.join(VERIF, 'build')

ASSUME_SCAN = [r'\bassume\s*\(', r'\badmit\s*\(', r'external_body', r'assume_specification', r'#\[verifier::external',
               r'kani::assume', r'kani::stub', r'mem::forget', r'\buninterp\b']


def scan_assumptions(paths):
    hits = []
    for p in paths:
        if not os.path.exists(p):
            continue
        for i, l in enumerate(open(p, errors='replace'), 1):
            code = l.split('//')[0]
            for rx in ASSUME_SCAN:
                if re.search(rx, code):
                    hits.append('%s:%d: %s' % (os.path.relpath(p, VERIF), i, l.strip()[:160]))
                    break
    return hits


def run_verus_unit(unit, tier):
    """Extract + verify one unit + canaries.  Returns a result dict."""
    udir = os.path.join(VERIF, 'units', unit)
    out = os.path.join(BUILD, unit, unit.replace('-', '_') + '.rs')
    r = {'unit': unit, 'engine': 'verus', 'status': None, 'failures': [], 'undecided': [], 'canaries': []}
    t0 = time.time()
    try:
        ex = extract.extract_unit(REPO, udir, out)
    except extract.LostAnchor as e:
        r.update(status='undecided', undecided=[{'reason': 'lost anchor: %s' % e}])
        r['wall_s'] = time.time() - t0
        return r
    # trusted-base drift guard: the scale-info shim must mirror the scale-info version pinned by Cargo.lock
    from . import shimcheck
    for pf, names in (('scaleinfo.rs', None), ('compactas_shim.rs', ['TypeDefPrimitive'])):
        if pf in ex['spec'].get('prelude', []):
            ok, msgs = shimcheck.check(REPO, VERIF, pf, names)
            r.setdefault('shim_check', []).append({'shim': pf, 'ok': ok, 'detail': msgs})
            if not ok:
                r.update(status='undecided', undecided=[{'reason': 'scale-info shim %s no longer mirrors the pinned scale-info: %s' % (pf, msgs)}])
                r['wall_s'] = time.time() - t0
                return r
    r['extract_log'] = ex['log']
    r['diff'] = ex['diff']
    r['functions'] = ex['functions']
    r['gen_file'] = os.path.relpath(out, VERIF)
    r['fail_needs_replay'] = bool(ex['spec'].get('fail_needs_replay'))
    # the lemma files must be free of assume/admit
    def _lst(x):
        return x if isinstance(x, list) else [x]
    bad = [h for h in scan_assumptions([os.path.normpath(os.path.join(udir, f)) for f in _lst(ex['spec'].get('lemmas', 'lemmas.rs')) + _lst(ex['spec']['contracts'])])
           if re.search(r'\b(assume|admit)\s*\(', h)]
    if bad:
        r.update(status='undecided', undecided=[{'reason': 'assume/admit in lemmas or contracts: %s' % bad}])
        r['wall_s'] = time.time() - t0
        return r
    res = verusrun.run(out, timeout=900, rlimit=ex['spec'].get('rlimit'))
    cl = verusrun.classify(res, ex['origin'], ex['lines'])
    # Termination obligation of a loop that has no spliced measure (an edit added the loop): Verus refuses it with "loop must
    # have a decreases clause".  For a unit whose failures are alarms only together with a concrete input from the oracle
    # (fail_needs_replay) this is reported as a failed termination obligation -- the oracle then has to exhibit an input on
    # which the real code does not terminate; otherwise it stays undecided.  Only when it is the sole diagnostic.
    if ex['spec'].get('fail_needs_replay') and ex['spec'].get('new_loop_is_termination_obligation') and not cl['failures'] \
            and cl['undecided'] and all(re.search(r'loop must have a decreases clause', u.get('message', '') or '') for u in cl['undecided']):
        for u in cl['undecided']:
            u = dict(u, kind='termination')
            u.pop('reason', None)
            cl['failures'].append(u)
        cl['undecided'] = []
        cl['status'] = 'failed'
    r['checker_cmd'] = res['cmd']
    r['status'] = cl['status']
    r['stats'] = cl['stats']
    r['undecided'] = cl['undecided']
    for f in cl['failures']:
        f['label'] = verusrun.label(unit, f)
    r['failures'] = cl['failures']
    r['clauses'] = count_clauses(ex)
    # ---- canaries (vacuity guards): assert(false) must FAIL wherever a contract could be vacuous
    if cl['status'] == 'verified':
        contracts = {}
        for cfn in _lst(ex['spec']['contracts']):
            contracts.update(extract.parse_contracts(os.path.normpath(os.path.join(udir, cfn))))
        jobs = []
        for fn, dirs in contracts.items():
            jobs.append((fn, ('body_start', '', '    proof { assert(false); } // CANARY\n'), 'body_start'))
            nloops = len([d for d in dirs if d[0] == 'loop'])
            for d in dirs:
                if d[0] == 'loop':
                    k = d[1].split()[0]
                    jobs.append((fn, ('loop_body_start', k, '    proof { assert(false); } // CANARY\n'), 'loop %s body' % k))
                    jobs.append((fn, ('after_loop', k, '    proof { assert(false); } // CANARY\n'), 'after loop %s' % k))
        def canary(j):
            fn, directive, what = j
            name = 'canary_%s_%s' % (fn, re.sub(r'\W+', '_', what))
            p = os.path.join(BUILD, unit, name + '.rs')
            try:
                ex2 = extract.extract_unit(REPO, udir, p, variant={'fn': fn, 'directive': directive})
            except extract.LostAnchor as e:
                return {'canary': '%s/%s' % (fn, what), 'ok': False, 'why': 'lost anchor %s' % e}
            res2 = verusrun.run(p, timeout=600, rlimit=ex['spec'].get('rlimit'), threads=1)
            cl2 = verusrun.classify(res2, ex2['origin'], ex2['lines'])
            hit = [f for f in cl2['failures'] if 'CANARY' in f['where']['text']]
            return {'canary': '%s/%s' % (fn, what), 'ok': bool(hit), 'why': 'assert(false) refuted' if hit else
                    'assert(false) was NOT refuted: contract above it is vacuous (status %s)' % cl2['status']}
        with cf.ThreadPoolExecutor(max_workers=8) as pool:
            r['canaries'] = list(pool.map(canary, jobs))
        bad = [c for c in r['canaries'] if not c['ok']]
        if bad:
            r['status'] = 'undecided'
            r['undecided'].append({'reason': 'vacuity canary failed: %s' % bad})
    r['wall_s'] = time.time() - t0
    return r


def count_clauses(ex):
    """Count contract clauses spliced into the extracted text (requires/ensures/invariant/decreases/assert)."""
    txt = '\n'.join(l for l, o in zip(ex['lines'], ex['origin']) if o.get('kind') == 'spec')
    # strip comments
    txt = re.sub(r'//.*', '', txt)
    out = {}
    for kw in ('requires', 'ensures', 'invariant', 'decreases'):
        n = 0
        for mm in re.finditer(r'\b%s\b' % kw, txt):
            # clause list up to the next keyword / opening brace at depth 0
            rest = txt[mm.end():]
            stop = re.search(r'\b(requires|ensures|invariant|decreases|proof)\b|\n\s*\{', rest)
            body = rest[:stop.start()] if stop else rest
            depth = 0
            cnt = 0
            cur = ''
            for ch in body:
                if ch in '([{':
                    depth += 1
                elif ch in ')]}':
                    depth -= 1
                if ch == ',' and depth == 0:
                    if cur.strip():
                        cnt += 1
                    cur = ''
                else:
                    cur += ch
            if cur.strip():
                cnt += 1
            n += cnt
        out[kw] = n
    out['assert'] = len(re.findall(r'\bassert\b', txt))
    return out


def load_known():
    p = os.path.join(VERIF, 'known_findings.json')
    if not os.path.exists(p):
        return []
    return json.load(open(p)).get('findings', [])


def main(argv=None):
    ap = argparse.ArgumentParser()
    ap.add_argument('prop')
    ap.add_argument('--tier', default=os.environ.get('VERIF_TIER', 'quick'), choices=['quick', 'thorough'])
    ap.add_argument('--replay', default=None)
    a = ap.parse_args(argv)
    pid = a.prop
    if pid not in PROPS:
        print('unknown or unclaimed property %s (claimed: %s)' % (pid, ' '.join(sorted(PROPS))))
        return 2
    if a.replay:
        return replay.replay_file(a.replay, REPO, VERIF)
    P = PROPS[pid]
    seed = int(os.environ.get('VERIF_SEED', '0') or 0)
    t0 = time.time()
    os.makedirs(BUILD, exist_ok=True)
    evp = os.path.join(os.environ.get('VERIF_EVIDENCE_DIR', os.path.join(VERIF, 'evidence')), pid + '.json')
    os.makedirs(os.path.dirname(evp), exist_ok=True)

    unit_results = []
    # Verus units and Kani groups are independent: run them concurrently
    with cf.ThreadPoolExecutor(max_workers=6) as pool:
        futs = [pool.submit(run_verus_unit, u, a.tier) for u in P.get('verus', [])]
        kfut = None
        if P.get('kani'):
            kfut = pool.submit(kanirun.run_group, pid, P['kani'], a.tier, REPO, VERIF, BUILD)
        for f in futs:
            unit_results.append(f.result())
        if kfut:
            unit_results += kfut.result()

    failures = []
    undecided = []
    for r in unit_results:
        for f in r.get('failures', []):
            failures.append((r, f))
        if r['status'] == 'undecided':
            undecided.append((r, r.get('undecided')))

    # ---- violations: replay search, known-findings filter
    known = [k for k in load_known() if k.get('property') == pid and k.get('status') == 'known']
    violations = []
    known_hits = []
    replay_dir = os.path.join(BUILD, 'replay')
    os.makedirs(replay_dir, exist_ok=True)
    for idx, (r, f) in enumerate(failures):
        rp = {'property': pid, 'unit': r['unit'], 'engine': r['engine'], 'obligation': f['label'],
              'verifier_message': f.get('message'), 'verifier_output': f.get('rendered', '')[:6000],
              'where': f.get('where'), 'checker_cmd': r.get('checker_cmd')}
        try:
            found = replay.search(pid, r['unit'], f, REPO, VERIF, a.tier, seed)
        except Exception as e:  # the search is an aid; its failure never changes the verdict
            found = {'found': False, 'note': 'replay search crashed: %r' % e}
        if f.get('kind') == 'termination' and found.get('found') and not re.search(r'does not terminate', json.dumps(found.get('violations'))):
            # a termination obligation is confirmed only by an input on which the real code does not terminate
            found = {'found': False, 'tried': (found.get('tried') or []) + ['the oracle found a failing input of another kind (%s); it does not confirm a termination obligation' % str(found.get('describe'))[:200]]}
        rp['concrete'] = found
        k = None
        for kf in known:
            if re.search(kf['obligation_regex'], f['label']) and (not found.get('found') or found.get('input_id') == kf.get('input_id')):
                k = kf
                break
        h = hashlib.sha1(f['label'].encode()).hexdigest()[:10]
        path = os.path.join(replay_dir, '%s-%s.json' % (pid, h))
        json.dump(rp, open(path, 'w'), indent=1)
        if k:
            known_hits.append((k, f))
            f['known'] = True
        elif r.get('fail_needs_replay') and not found.get('found'):
            # This unit's proof rests on ASSUMED std contracts (only the std functions the shipped code calls have one).
            # A failed obligation without a concrete failing input may just mean "the edit calls another std function":
            # undecided, not an alarm.  With a concrete input from the exhaustive oracle it is a violation.
            undecided.append((r, [{'reason': 'obligation failed but the exhaustive concrete oracle finds no failing input; the unit rests on assumed std contracts, so this is undecided rather than an alarm', 'obligation': f['label'], 'oracle': found.get('tried')}]))
            f['downgraded'] = True
        else:
            violations.append((path, f, found))

    # ---- thorough tier: strength self-test (built-in mutations) and proactive replay search
    selftest = None
    proactive = None
    if a.tier == 'thorough' and not violations and not undecided and not os.environ.get('VERIF_NESTED'):
        from . import selftest as st
        selftest = st.run(pid, VERIF, REPO)
        proactive = replay.proactive(pid, P, REPO, VERIF, seed, [k.get('input_id') for k in load_known() if k.get('property') == pid])

    # ---- evidence
    ev = build_evidence(pid, P, a.tier, seed, unit_results, violations, known_hits, time.time() - t0)
    if selftest is not None:
        ev['coverage']['selftest'] = selftest
    if proactive is not None:
        ev['coverage']['replay_search'] = proactive
    ev['wall_s'] = round(time.time() - t0, 2)
    json.dump(ev, open(evp, 'w'), indent=1)

    for k, f in known_hits:
        print('KNOWN-FINDING: property=%s %s' % (pid, k.get('what', f['label'])))
    if violations:
        for path, f, found in violations:
            print('failed obligation: %s' % f['label'])
            if f.get('rendered'):
                print(f['rendered'].rstrip())
            if found.get('found'):
                print('concrete failing input on the real code: %s' % found.get('describe'))
            suffix = '' if found.get('found') else ' no-failing-input-found'
            print('VIOLATION property=%s replay=%s%s' % (pid, path, suffix))
        return 1
    if undecided:
        for r, u in undecided:
            print('UNDECIDED unit=%s: %s' % (r['unit'], json.dumps(u)[:1500]))
        return 2
    if selftest is not None:
        bad = [m for m in selftest['results'] if not m['as_expected']]
        if bad:
            print('UNDECIDED: strength self-test mismatch (the machinery is weaker or noisier than documented): %s' % json.dumps(bad)[:1500])
            return 2
    if proactive is not None and proactive.get('disagreements'):
        print('UNDECIDED: the concrete oracle found failing inputs although every obligation is discharged -- an assumed contract is wrong: %s' % json.dumps(proactive['disagreements'])[:1500])
        return 2
    tot = ev['coverage']
    print('OK property=%s tier=%s obligations=%s discharged=%s wall=%.1fs' % (pid, a.tier, tot.get('obligations'), tot.get('discharged'), ev['wall_s']))
    return 0


def build_evidence(pid, P, tier, seed, unit_results, violations, known_hits, wall):
    obligations = 0
    discharged = 0
    units = []
    trusted = list(P.get('trusted_base', []))
    assumptions = list(P.get('assumptions', []))
    bounded = []
    samples = []
    cmds = []
    scan_paths = []
    for r in unit_results:
        u = {'unit': r['unit'], 'engine': r['engine'], 'status': r['status'], 'wall_s': round(r.get('wall_s', 0), 2)}
        if r['engine'] == 'verus':
            fns = (r.get('stats') or {}).get('functions', [])
            n_ok = len([f for f in fns if f.get('success')])
            n_all = len(fns)
            obligations += n_all
            discharged += n_ok
            u.update({'functions_under_contract': r.get('functions'), 'verus_function_queries': n_all, 'verus_verified': n_ok,
                      'contract_clauses': r.get('clauses'), 'smt_ms': (r.get('stats') or {}).get('smt_ms'),
                      'backend': 'Verus 0.2026.09.13 -> Z3', 'per_function': fns, 'canaries': r.get('canaries'),
                      'extraction_rules_applied': r.get('extract_log'), 'extraction_diff': r.get('diff'), 'shim_check': r.get('shim_check'),
                      'generated_file': r.get('gen_file')})
            if r.get('checker_cmd'):
                cmds.append(r['checker_cmd'])
            for f in fns[:3]:
                samples.append({'unit': r['unit'], 'obligation_bundle': f['function'], 'mode': f['mode'], 'discharged': f['success'], 'smt_ms': f['smt_ms']})
            spec = json.load(open(os.path.join(VERIF, 'units', r['unit'], 'unit.json')))
            for f in (spec.get('lemmas') if isinstance(spec.get('lemmas'), list) else [spec.get('lemmas', 'lemmas.rs')]) + (spec['contracts'] if isinstance(spec['contracts'], list) else [spec['contracts']]):
                scan_paths.append(os.path.normpath(os.path.join(VERIF, 'units', r['unit'], f)))
            scan_paths += [os.path.join(VERIF, 'vx', 'prelude', p) for p in spec.get('prelude', [])]
            trusted += spec.get('trusted_base', [])
            assumptions += spec.get('assumptions', [])
        else:
            u.update(r.get('evidence', {}))
            if r.get('failures') and all(f.get('known') for f in r['failures']):
                u['status'] = 'known-finding'   # reported, not counted as an obligation of the proof claim
            elif r.get('complete'):
                obligations += r.get('checks', 0)
                discharged += r.get('checks_ok', 0)
            else:
                bounded.append({'harness': r['unit'], 'bound': r.get('bound'), 'cbmc_checks': r.get('checks'), 'ok': r.get('checks_ok')})
            if r.get('checker_cmd'):
                cmds.append(r['checker_cmd'])
            samples.append({'unit': r['unit'], 'harness': r.get('harness'), 'complete': r.get('complete'), 'cbmc_checks': r.get('checks')})
            scan_paths += r.get('scan_paths', [])
        if r.get('undecided'):
            u['undecided'] = r['undecided']
        if r.get('failures'):
            u['failed_obligations'] = [f['label'] for f in r['failures']]
        units.append(u)
    hits = scan_assumptions(sorted(set(scan_paths)))
    cov = {
        'obligations': obligations,
        'discharged': discharged,
        'checker_cmd': ' ; '.join(cmds) if cmds else 'none',
        'trusted_base': sorted(set(trusted)),
        'units': units,
        'bounded': bounded,
        'samples': samples or [{'note': 'no unit ran'}],
        'assumption_scan_hits': hits,
        'not_covered': P.get('not_covered', []),
        'known_findings_reported': [k.get('what') for k, _ in known_hits],
    }
    if P['level'] != 'proof':
        # bounded model checking: exploration-style counts are the honest keys
        cov['evaluations'] = sum(b.get('cbmc_checks') or 0 for b in bounded) + obligations
        cov['distinct_nontrivial'] = len([b for b in bounded if b.get('ok')]) + len([u for u in units if u['status'] == 'verified'])
        cov['rule'] = 'one evaluation = one CBMC property check inside a bounded harness; distinct = harnesses whose covers were all satisfied'
    return {'property_id': pid, 'tier': tier, 'seed': seed, 'level': P['level'], 'coverage': cov,
            'assumptions': sorted(set(assumptions)) + ['assumption-scan: ' + h for h in hits],
            'wall_s': round(wall, 2), 'violations': len(violations)}


if __name__ == '__main__':
    try:
        rc = main()
    except SystemExit:
        raise
    except BaseException as e:   # a crash of the machinery is never an alarm
        import traceback
        traceback.print_exc()
        print('UNDECIDED: internal error in the checking machinery: %r' % (e,))
        rc = 2
    sys.exit(rc)
